/-
  C12 — dispatch-key identity (`TraitBound: PartialEq / Hash / ToTokens`, model `Key.lean`): property
  theorems. All proofs are in `Lemmas/KeyLemmas.lean`.

  `cmpPath p` (executable): `p` has at least one segment and its last segment has one of the three argument forms of
  `syn::PathArguments` — none, angle-bracketed, parenthesized (`Fn(A) -> B`; since /repo 94aac73 compared and hashed by its
  printed tokens, before that `unreachable!()`). These are exactly the paths with a dispatch key (`C12_key_defined`).
  `wfPath p` (executable) = `cmpPath p` and every segment has an identifier; every path `syn` produces is `wfPath`.
  Accessors (`Lemmas/KeyLemmas.lean`): `initSegs p` (all segments but the last), `lastIdent p`,
  `lastArgs p` (generic arguments of an angle-bracketed last segment, `[]` otherwise), `lastParen p` (the
  `PathArguments::Parenthesized` node of the last segment, `none` otherwise).

  All statements hold as posed. `C12_symm`, `C12_trans`, `C12_hash_agrees`, `C12_hash_of_key`, `C12_ignores_bindings`,
  `C12_tokens_strip_only_bindings`, `C12_strip_idempotent` need no side condition at all; the only theorem with a side
  condition beyond `cmpPath` is `C12_hash_iff` (`noParenArg`, see there).

  Second part (proofs in `Lemmas/ExpandEmit.lean`): what the generators of `Expand.lean` PRINT for a dispatch key —
  the where-clause of the main impl as an exact list (`C12_main_where_clause_emits_tbTokens`, `…_inherent`,
  `…_of_accepted`), the leading arguments of the helper impls (`C12_helper_wildcards_emit_tbTokens`: a wildcard is the
  projection of the FAMILY's stored key, finding F-D3) and which member's spelling the stored key has
  (`C12_emitted_bound_is_a_members_bound`: the last member's, for un-nested inputs).
-/
import DisjointImpls.Lemmas.KeyLemmas
import DisjointImpls.Lemmas.ExpandEmit
import DisjointImpls.Props.C17
namespace DI

/-- `TraitBound::eq` is equality of keys, whenever one of the two paths is comparable (all three argument forms,
    `Fn(A) -> B` included) -/
theorem C12_eq_iff_key (p q : T) (hp : cmpPath p = true) : tbEq p q = .t ↔ keyOf p = keyOf q := by
  rw [tbEq_t_iff, keyOf_isSome, hp]
  simp

/-- … and with no side condition: "equal" exactly when both paths have the same, defined, dispatch key -/
theorem C12_eq_iff_key_defined (p q : T) : tbEq p q = .t ↔ (keyOf p = keyOf q ∧ (keyOf p).isSome = true) :=
  tbEq_t_iff p q

/-- the paths with a dispatch key are exactly the comparable ones -/
theorem C12_key_defined (p : T) : (keyOf p).isSome = cmpPath p := keyOf_isSome p

/-- never panics on comparable paths -/
theorem C12_total (p q : T) (hp : cmpPath p = true) (hq : cmpPath q = true) :
    tbEq p q = .t ∨ tbEq p q = .f := by
  rw [tbEq_eq_of_cmp hp hq]
  by_cases h : keyOf' p = keyOf' q <;> simp [h]

/-- reflexive exactly on the comparable paths -/
theorem C12_refl (p : T) (hp : cmpPath p = true) : tbEq p p = .t :=
  (C12_eq_iff_key p p hp).2 rfl

theorem C12_refl_iff (p : T) : tbEq p p = .t ↔ cmpPath p = true := by
  rw [tbEq_t_iff, keyOf_isSome]; simp

/-- symmetric, as a three-valued function (a panic one way is a panic the other way) — no side condition -/
theorem C12_symm (p q : T) : tbEq p q = tbEq q p := tbEq_symm p q

/-- transitive — no side condition -/
theorem C12_trans (p q r : T) : tbEq p q = .t → tbEq q r = .t → tbEq p r = .t := by
  rw [tbEq_t_iff, tbEq_t_iff, tbEq_t_iff]
  rintro ⟨h1, h2⟩ ⟨h3, _⟩
  exact ⟨h1.trans h3, h2⟩

/-- the hasher is fed a function of the key (no well-formedness needed) -/
theorem C12_hash_of_key (p q : T) : keyOf p = keyOf q → hashFeed p = hashFeed q := by
  intro h; rw [hashFeed_eq_map, hashFeed_eq_map, h]

/-- `k1 == k2 → hash(k1) == hash(k2)` — no side condition -/
theorem C12_hash_agrees (p q : T) : tbEq p q = .t → hashFeed p = hashFeed q :=
  fun h => C12_hash_of_key p q ((tbEq_t_iff p q).1 h).1

/-- the feed determines the key: the hash distinguishes exactly what `eq` distinguishes (before hashing).
    Side condition `noParenArg` (executable, true of every `syn` tree): no generic argument of an angle-bracketed last
    segment is itself a `PathArguments::Parenthesized` node. It is needed because the code feeds the parenthesized
    argument list of `Tr(..)` to the hasher exactly as it feeds ONE generic argument of `Tr<..>`
    (`C12_hash_iff_counterexample`). No `cmpPath` is needed (a path without key has no feed). -/
theorem C12_hash_iff (p q : T) (hnp : noParenArg p = true) (hnq : noParenArg q = true) :
    hashFeed p = hashFeed q ↔ keyOf p = keyOf q := by
  refine ⟨fun h => ?_, C12_hash_of_key p q⟩
  rw [hashFeed_eq_map, hashFeed_eq_map] at h
  cases hkp : keyOf p with
  | none =>
    cases hkq : keyOf q with
    | none => rfl
    | some k => rw [hkp, hkq] at h; cases h
  | some k =>
    cases hkq : keyOf q with
    | none => rw [hkp, hkq] at h; cases h
    | some k' =>
      rw [hkp, hkq] at h
      simp only [Option.map_some, Option.some.injEq] at h
      obtain ⟨_, rfl⟩ := keyOf_some hkp
      obtain ⟨_, rfl⟩ := keyOf_some hkq
      rw [feedOf_inj h (lastParen_eq_of_feed hnp hnq h)]

/-- bindings are ignored: removing the `GenericArgument::AssocType` arguments of the last segment does not
    change the key -/
theorem C12_ignores_bindings (p : T) : keyOf (stripBindings p) = keyOf p := keyOf_stripBindings p

section Forms
private def fseg (n : String) (args : T) : T := .node "PathSegment" [] [.node "Ident" [n] [], args]
private def fpath (segs : List T) : T := .node "Path" [] [.node "IgnL" [] [.node "None" [] []], .node "List" [] segs]
private def fangle (args : List T) : T :=
  .node "PathArguments::AngleBracketed" [] [.node "Ign" [] [.node "None" [] []], .node "List" [] args]
private def binding : T := .node "GenericArgument::AssocType" [] [.node "Ident" ["A"] [], .node "None" [] [], .tparam "X"]

/-- `Tr`, `Tr<>`, `Tr<A = X>` have the same key; `Tr<u8>` and `Tr<u8, A = X>` too, and a different one -/
theorem C12_tr_forms :
    keyOf (fpath [fseg "Tr" (.node "PathArguments::None" [] [])]) = keyOf (fpath [fseg "Tr" (fangle [])]) ∧
    keyOf (fpath [fseg "Tr" (fangle [])]) = keyOf (fpath [fseg "Tr" (fangle [binding])]) ∧
    keyOf (fpath [fseg "Tr" (fangle [.node "GenericArgument::Type" [] [.tparam "U"]])]) =
      keyOf (fpath [fseg "Tr" (fangle [.node "GenericArgument::Type" [] [.tparam "U"], binding])]) ∧
    keyOf (fpath [fseg "Tr" (fangle [.node "GenericArgument::Type" [] [.tparam "U"]])]) ≠
      keyOf (fpath [fseg "Tr" (fangle [])]) ∧
    tbEq (fpath [fseg "Tr" (.node "PathArguments::None" [] [])]) (fpath [fseg "Tr" (fangle [binding])]) = .t ∧
    wfPath (fpath [fseg "Tr" (fangle [binding])]) = true := by
  decide
end Forms

/-- nothing else is ignored: equal keys mean the same leading segments, the same identifier, the same non-binding
    arguments in the same order and the same parenthesized argument list (output type included) or none on both
    sides -/
theorem C12_nothing_else (p q : T) (hp : cmpPath p = true) (hq : cmpPath q = true) :
    keyOf p = keyOf q ↔
      initSegs p = initSegs q ∧ lastIdent p = lastIdent q ∧ nonAssoc (lastArgs p) = nonAssoc (lastArgs q) ∧
      lastParen p = lastParen q := by
  rw [keyOf_eq_of_cmp hp, keyOf_eq_of_cmp hq, Option.some.injEq]
  simp only [keyOf', TraitKey.mk.injEq]

/-- the key of a comparable path, component by component -/
theorem C12_key_components (p : T) (hp : cmpPath p = true) :
    keyOf p = some ⟨initSegs p, lastIdent p, nonAssoc (lastArgs p), lastParen p⟩ := keyOf_eq_of_cmp hp

/-- the printed bound is the user's bound with exactly the bindings removed: same leading segments, same
    identifier, the arguments of the last segment filtered in order, a parenthesized argument list as it is -/
theorem C12_tokens_parts (p : T) :
    initSegs (tbTokens p) = initSegs p ∧ lastIdent (tbTokens p) = lastIdent p ∧
    lastArgs (tbTokens p) = nonAssoc (lastArgs p) ∧ lastParen (tbTokens p) = lastParen p :=
  ⟨(stripBindings_parts p).1, (stripBindings_parts p).2.1, (stripBindings_parts p).2.2, lastParen_stripBindings p⟩

theorem C12_tokens_strip_only_bindings (p : T) :
    keyOf (tbTokens p) = keyOf p ∧ nonAssoc (lastArgs (tbTokens p)) = lastArgs (tbTokens p) := by
  refine ⟨keyOf_stripBindings p, ?_⟩
  rw [(C12_tokens_parts p).2.2.1, nonAssoc_idem]

/-- the printed bound is again a well-formed path, equal (as a key) to the bound (`Fn(A) -> B` included: it is printed
    unchanged) -/
theorem C12_tokens_eq (p : T) (hp : wfPath p = true) : wfPath (tbTokens p) = true ∧ tbEq (tbTokens p) p = .t := by
  have hw : wfPath (tbTokens p) = true := by unfold tbTokens; rw [wfPath_stripBindings, hp]
  exact ⟨hw, (C12_eq_iff_key _ _ (cmpPath_of_wfPath hw)).2 (keyOf_stripBindings p)⟩

/-- the same for paths that are only comparable -/
theorem C12_tokens_eq_cmp (p : T) (hp : cmpPath p = true) : cmpPath (tbTokens p) = true ∧ tbEq (tbTokens p) p = .t := by
  have hw : cmpPath (tbTokens p) = true := by unfold tbTokens; rw [cmpPath_stripBindings, hp]
  exact ⟨hw, (C12_eq_iff_key _ _ hw).2 (keyOf_stripBindings p)⟩

theorem C12_strip_idempotent (p : T) : stripBindings (stripBindings p) = stripBindings p :=
  stripBindings_idem p

/-- outside `cmpPath` the comparison panics (`unwrap()` on a path without segments; argument trees that are none of the
    three `syn::PathArguments` forms — `syn` produces neither), and `Fn()` against `Fn()`, which did panic before
    /repo 94aac73, is now "equal" -/
theorem C12_panics_outside :
    tbEq (.node "Path" [] [.node "IgnL" [] [.node "None" [] []], .node "List" [] []])
      (.node "Path" [] [.node "IgnL" [] [.node "None" [] []], .node "List" [] []]) = .panic ∧
    tbEq (.node "Path" [] [.node "IgnL" [] [.node "None" [] []], .node "List" [] [.node "PathSegment" [] [.node "Ident" ["Fn"] [],
      .node "?" [] []]]]) (.node "Path" [] [.node "IgnL" [] [.node "None" [] []], .node "List" [] [.node "PathSegment" [] [.node "Ident" ["Fn"] [],
      .node "?" [] []]]]) = .panic ∧
    tbEq (.node "Path" [] [.node "IgnL" [] [.node "None" [] []], .node "List" [] [.node "PathSegment" [] [.node "Ident" ["Fn"] [],
      .node "PathArguments::Parenthesized" [] []]]]) (.node "Path" [] [.node "IgnL" [] [.node "None" [] []], .node "List" [] [.node "PathSegment" [] [.node "Ident" ["Fn"] [],
      .node "PathArguments::Parenthesized" [] []]]]) = .t := by decide

/-! ## What the generators print for a dispatch key (last clause of C12)

The theorems above are about `tbTokens` in isolation; the ones below are about the generators of `Expand.lean` that USE
it (`main_trait::generate`, `disjoint::generate`), and are exact tree equalities — not modulo `normTr` like the checker
`ExpandOK` (C01). Definitions (`Lemmas/ExpandEmit.lean`): `implWhere_em m` = the where-predicates of the impl `m`;
`boundedTypes_em abg` = the distinct bounded types of the keys in order of first occurrence; `keyPathsFor_em abg b` =
the stored trait paths of the keys on `b` (first occurrences under `TraitBound::eq`); `helperArgs_em abg hargs` =
`lifetimes of hargs ++ one projection per (key, assoc) of abg.idents ++ the other hargs`. -/

/-- `TraitBound::to_tokens`, tree for tree: the leading `::` (`lc`), every leading segment (`i`), the identifier, the
    `::` before `<` (`c2`) and every lifetime/type/const argument are printed as stored, in order; exactly the
    `GenericArgument::AssocType` arguments of the last segment are dropped (`Tr<A = X>` ↦ `Tr<>`). A path whose last
    segment has no angle-bracketed arguments is printed unchanged. No side condition. -/
theorem C12_tokens_spelling (p : T) :
    (∃ lc i id c2 args, p = mkPath lc (i ++ [angleSeg id c2 args]) ∧
      tbTokens p = mkPath lc (i ++ [angleSeg id c2 (nonAssoc args)])) ∨
    (tbTokens p = p ∧ ∀ l args, lastSeg p = some l → segArgs l ≠ .angle args) :=
  tbTokens_spelling_em p

/-- the projection of a key is literally `<bounded as P>::assoc` with `P = tbTokens path` (`qualified_em`: qualified
    self `bounded`, position = number of segments of `P`, path = `P` followed by the segment `assoc`), and reading it
    back (`projectionRead_em`) returns the bounded type, `tbTokens path` and `assoc`. Side condition: the stored
    trait path is a `Path [lead, List segments]` tree (`isPathNode_em`, executable; implied by `wfPath`). -/
theorem C12_projection_is_qualified_tbTokens (b tr : T) (a : String) (h : isPathNode_em tr = true) :
    projection b tr a = qualified_em b (tbTokens tr) a ∧
    projectionRead_em (projection b tr a) = some (b, tbTokens tr, a) :=
  ⟨projection_eq_em b tr a h, projectionRead_projection_em b tr a h⟩

/-- **Trait mode.** If `main_trait::generate` succeeds (`mainImplOfTrait tr idx g = .ok m`, no other side condition),
    the where-clause of the main impl is EXACTLY:
    * the predicates inherited from the trait definition (`traitOwnPreds_em tr g`: the trait's where-clause and the
      bounds of its parameters with the header's arguments substituted, as `resolve_main_trait_params` computes them);
    * for every distinct bounded type `b` of the keys, in order, ONE predicate `b: bounds` whose bounds are `?Sized`
      iff `b ∈ g.2.1.unsized`, followed by `tbTokens p` (no modifier, no lifetimes) for every stored key path `p` on `b`;
    * `Self: _<Trait><idx><args>` where `<Trait>` is the last identifier of the first block's trait path and `args` are
      the lifetime arguments of the header, then `<bounded as tbTokens p>::assoc` for every `((bounded, p), assoc)` of
      `g.2.1.idents` in order, then the header's other arguments. -/
theorem C12_main_where_clause_emits_tbTokens (tr : T) (idx : Nat) (g : T × ABG × List Blk) (m : T)
    (hm : mainImplOfTrait tr idx g = .ok m) :
    implWhere_em m = traitOwnPreds_em tr g ++
      (boundedTypes_em g.2.1).map (fun b => whereType b
        ((if g.2.1.unsized.contains b then [maybeSizedBound] else []) ++
          (keyPathsFor_em g.2.1 b).map (fun p => traitBoundOf (tbTokens p)))) ++
      [whereType selfTy [traitBoundOf (pathNode noLead [seg (genIdentStr (headerName_em g) idx)
        (angle ((headerArgs_em g).filter isLifetimeArg ++
          g.2.1.idents.map (fun kx => gaType (projection kx.1.1 kx.1.2 kx.2)) ++
          (headerArgs_em g).filter (fun a => !isLifetimeArg a)))])]] := by
  rw [mainImplOfTrait_where_em hm, List.append_assoc]; rfl

/-- **Inherent mode.** If the main inherent impl is generated (`mainImplInherent idx g = .ok (some m)`), its
    where-clause is EXACTLY the key predicates (as in trait mode) followed by `Self: _<SelfType><idx><args>`, where
    `args` are the sorted lifetime parameters of the first block, the projections of the keys, the sorted other
    parameters (`selfArgs_em g` = what `gen_inherent_self_ty_args` prints). The first block's own where-clause is not
    part of it. -/
theorem C12_main_where_clause_emits_tbTokens_inherent (idx : Nat) (g : T × ABG × List Blk) (m : T)
    (hm : mainImplInherent idx g = .ok (some m)) :
    implWhere_em m =
      (boundedTypes_em g.2.1).map (fun b => whereType b
        ((if g.2.1.unsized.contains b then [maybeSizedBound] else []) ++
          (keyPathsFor_em g.2.1 b).map (fun p => traitBoundOf (tbTokens p)))) ++
      [whereType selfTy [traitBoundOf (pathNode noLead [seg (genIdentStr (selfName_em g) idx)
        (angle ((selfArgs_em g).filter isLifetimeArg ++
          g.2.1.idents.map (fun kx => gaType (projection kx.1.1 kx.1.2 kx.2)) ++
          (selfArgs_em g).filter (fun a => !isLifetimeArg a)))])]] := by
  rw [mainImplInherent_where_em hm]; rfl

/-- the same over the family's KEY MAP `abg.bounds` (instead of its flattening `abg.idents`), when the key map is a
    proper IndexMap (`keysProper_em abg`, executable: keys pairwise different under `keyEq`, every key comparable
    with itself, every key bound by at least one member): the bounded types are those of the map in its order, the
    bounds printed for `b` are `tbTokens` of the stored path of EVERY key `(b, p)` of the map, each once, in order, and
    the projections are those of every key, one per associated-type identifier bound under it. -/
theorem C12_where_clause_over_key_map (abg : ABG) (h : keysProper_em abg = true) :
    boundedTypes_em abg = dedupKeys (abg.bounds.map (fun e => e.1.1)) ∧
    (∀ b, keyPathsFor_em abg b = (abg.bounds.filter (fun e => e.1.1 == b)).map (fun e => e.1.2)) ∧
    (∀ hargs, helperArgs_em abg hargs = hargs.filter isLifetimeArg ++
      abg.bounds.flatMap (fun e => (entryNames_em e).map (fun x => gaType (projection e.1.1 e.1.2 x))) ++
      hargs.filter (fun a => !isLifetimeArg a)) :=
  ⟨boundedTypes_eq_em abg h, fun b => keyPathsFor_eq_em abg b h, fun hargs => helperArgs_eq_em abg hargs⟩

/-- … and every family of an ACCEPTED grouping has a proper key map -/
theorem C12_keysProper_of_accepted (items : List T) (groups : Groups) (h : parseGroups items = .ok groups) :
    ∀ e ∈ groups, keysProper_em e.2.1 = true :=
  fun _ he => parseGroups_keysProper_em h he

/-- hence, for a family of an accepted grouping (trait mode): the key predicates of the main impl, stated over the
    key map with no further side condition -/
theorem C12_main_where_clause_of_accepted (items : List T) (groups : Groups) (h : parseGroups items = .ok groups)
    (tr : T) (idx : Nat) (g : T × ABG × List Blk) (hg : g ∈ groups) (m : T) (hm : mainImplOfTrait tr idx g = .ok m) :
    implWhere_em m = traitOwnPreds_em tr g ++
      (dedupKeys (g.2.1.bounds.map (fun e => e.1.1))).map (fun b => whereType b
        ((if g.2.1.unsized.contains b then [maybeSizedBound] else []) ++
          (g.2.1.bounds.filter (fun e => e.1.1 == b)).map (fun e => traitBoundOf (tbTokens e.1.2)))) ++
      [selfPredicate_em (genIdentStr (headerName_em g) idx) g.2.1 (headerArgs_em g)] := by
  have hk := parseGroups_keysProper_em h hg
  rw [mainImplOfTrait_where_em hm, List.append_assoc]
  unfold emittedPreds_em
  rw [boundedTypes_eq_em _ hk]
  congr 2
  apply List.map_congr_left
  intro b _
  rw [keyPredicate_eq_em _ _ hk]

/-- **Helper impls** (both modes, `disjoint::generate`): helper impl `i` is built from member `i` and row `i`; the
    arguments of its trait path START with the printed row (`rowArgs`), and entry `j` of the row is printed as
    * `some payload` ↦ the payload, as a type argument;
    * `none` (wildcard) ↦ `<bounded as tbTokens p>::assoc` for the FAMILY's stored key `((bounded, p), assoc) =
      g.2.1.idents[j]` — the bounded type and the path are NOT seen through the member's substitution (finding F-D3;
      `C12_helper_wildcard_prints_family_key_counterexample` below).
    Only side condition: the generator succeeds. -/
theorem C12_helper_wildcards_emit_tbTokens (idx : Nat) (g : T × ABG × List Blk) (hs : List T)
    (hh : helperImpls idx g = some hs) :
    hs.length = min g.2.2.length g.2.1.payloads.length ∧
    ∀ (i : Nat) (h : T), hs[i]? = some h → ∃ b row, g.2.2[i]? = some b ∧ g.2.1.payloads[i]? = some row ∧
      (∃ rest, implTraitArgs_em h = rowArgs g.2.1.idents row ++ rest) ∧
      ∀ (j : Nat) (bounded p : T) (assoc : String) (r : Option T),
        g.2.1.idents[j]? = some ((bounded, p), assoc) → row[j]? = some r →
        (implTraitArgs_em h)[j]? = some (match r with
          | some payload => gaType payload
          | none => gaType (projection bounded p assoc)) := by
  obtain ⟨h1, h2⟩ := helperImpls_row_entries_em hh
  refine ⟨h1, fun i h hi => ?_⟩
  obtain ⟨b, row, hb, hr, hrest, hent⟩ := h2 i h hi
  refine ⟨b, row, hb, hr, hrest, fun j bounded p assoc r hk hrj => ?_⟩
  rw [hent j _ r hk hrj]
  cases r <;> rfl

/-- what follows the row: in trait mode the member's own trait arguments, and the helper trait is named
    `_<member's trait name><idx>`; in inherent mode the self-type arguments `selfArgs_em g`, and the helper trait is
    named `_<SelfType><idx>`. (`inherentFamily_inh g`, executable: the first block has no trait path.) -/
theorem C12_helper_impl_arguments (idx : Nat) (g : T × ABG × List Blk) (hs : List T)
    (hh : helperImpls idx g = some hs) :
    ∀ (i : Nat) (h : T), hs[i]? = some h → ∃ b row, g.2.2[i]? = some b ∧ g.2.1.payloads[i]? = some row ∧
      (inherentFamily_inh g = false →
        implTraitName_em h = genIdentStr (implTraitName_em b.item) idx ∧
        implTraitArgs_em h = rowArgs g.2.1.idents row ++ implTraitArgs_em b.item) ∧
      (inherentFamily_inh g = true →
        implTraitName_em h = genIdentStr (selfName_em g) idx ∧
        implTraitArgs_em h = rowArgs g.2.1.idents row ++ selfArgs_em g) := by
  intro i h hi
  cases hinh : inherentFamily_inh g with
  | false =>
    obtain ⟨b, row, hb, hr, h1, h2⟩ := (helperImpls_trait_rows_em hh hinh).2 i h hi
    exact ⟨b, row, hb, hr, fun _ => ⟨h1, h2⟩, fun e => (by cases e)⟩
  | true =>
    obtain ⟨b, row, hb, hr, h1, h2⟩ := (helperImpls_inherent_rows_em hh hinh).2 i h hi
    exact ⟨b, row, hb, hr, fun e => (by cases e), fun _ => ⟨h1, h2⟩⟩

/-- the two statements above as EXECUTABLE exact checks (`mainWhereExact_em trait? idx g m`: the where-clause of `m`
    equals the list of `C12_main_where_clause_emits_tbTokens(_inherent)`; `helperRowsExact_em g hs`: one helper impl
    per member, each starting its trait arguments with the printed row) hold of the model's expansion; they can be
    evaluated on a real expansion, where they compare trees exactly (no `normTr`) -/
theorem C12_exact_checkers_hold (idx : Nat) (g : T × ABG × List Blk) :
    (∀ tr m, mainImplOfTrait tr idx g = .ok m → mainWhereExact_em (some tr) idx g m = true) ∧
    (∀ m, mainImplInherent idx g = .ok (some m) → mainWhereExact_em none idx g m = true) ∧
    (∀ hs, helperImpls idx g = some hs → helperRowsExact_em g hs = true) :=
  ⟨fun _ _ h => mainWhereExact_of_trait_em h, fun _ h => mainWhereExact_of_inherent_em h,
   fun _ h => helperRowsExact_of_em h⟩

/-- **Which spelling is printed** (un-nested inputs). For an accepted invocation in which no header generalises
    another (`noNesting`, executable) and whose blocks are well-formed (`flatWF0`, executable: every trait path of a
    bound is comparable, a header that matches itself does so with identity bindings), every family has a LAST member
    `l` — an input block — such that every trait path printed in a key predicate (`p ∈ keyPathsFor_em …`, printed as
    `tbTokens p` by `C12_main_where_clause_emits_tbTokens`) and every key projected in `Self: _Helper<…>` or in a
    helper impl's wildcard is, tree for tree, a bound `rb.bounded: rb.tr` that `l` wrote (`rb ∈ l.raw`: the bounds
    `TraitBoundsVisitor::find` reads off the canonicalised block). So the emitted bound is the last member's bound
    with exactly its bindings removed. -/
theorem C12_emitted_bound_is_a_members_bound (items : List T) (groups : Groups) (hn : noNesting items = true)
    (hwf : flatWF0 items = true) (h : parseGroups items = .ok groups) :
    ∀ e ∈ groups, ∃ l, e.2.2.getLast? = some l ∧ l ∈ items.map mkBlk ∧
      (∀ b p, p ∈ keyPathsFor_em e.2.1 b → ∃ rb ∈ l.raw, rb.bounded = b ∧ rb.tr = p) ∧
      (∀ kx ∈ e.2.1.idents, ∃ rb ∈ l.raw, rb.bounded = kx.1.1 ∧ rb.tr = kx.1.2) := by
  intro e he
  obtain ⟨l, hl, hli, hkeys⟩ := flat_stored_key_last_em h (by simpa [noNesting] using hn) hwf e he
  have hk := parseGroups_keysProper_em h he
  refine ⟨l, hl, hli, fun b p hp => ?_, fun kx hkx => ?_⟩
  · obtain ⟨kr, hkr, hkrp⟩ := mem_keyPathsFor_em hk hp
    obtain ⟨rb, hrb, he'⟩ := hkeys kr hkr
    rw [hkrp] at he'
    simp only [Prod.mk.injEq] at he'
    exact ⟨rb, hrb, he'.1.symm, he'.2.symm⟩
  · obtain ⟨rows, hrows⟩ := idents_mem hkx
    obtain ⟨rb, hrb, he'⟩ := hkeys _ hrows
    simp only at he'
    exact ⟨rb, hrb, by rw [he'], by rw [he']⟩

/-- nested inputs (no side condition beyond acceptance): every stored key is one of the RE-EXPRESSIONS
    (`reexpr`: `substituteBound` under the substitution the search used for that member; the key itself for the
    founding member) of a bound `rb.bounded: rb.tr` that some member `b` wrote -/
theorem C12_emitted_bound_is_a_reexpressed_members_bound (items : List T) (groups : Groups)
    (h : parseGroups items = .ok groups) :
    ∀ e ∈ groups, ∀ kx ∈ e.2.1.idents, ∃ (i : Nat) (b : Blk) (rb : RawBound),
      e.2.2[i]? = some b ∧ rb ∈ b.raw ∧ kx.1 ∈ reexpr (parseEnv items) e.1 i b (rb.bounded, rb.tr) := by
  intro e he kx hkx
  obtain ⟨rows, hrows⟩ := idents_mem hkx
  obtain ⟨i, b, k', r, hb, hk', hre⟩ := C11_stored_key_is_reexpression items groups h e he _ hrows
  obtain ⟨rb, hrb, hk⟩ := (otherFold_spec b _ hk').1
  simp only at hk
  exact ⟨i, b, rb, hb, hrb, by rw [← hk]; exact hre⟩

/-! ### Non-vacuity: the README input with a differently spelled dispatch bound -/

namespace Ex12
open Ex11
def u8 : T := Ex11.tyPath [Ex11.seg "u8"]
def colon (b : Bool) : T := if b then .node "Some" ["PathSep"] [] else leaf "None"
/-- `Dispatch<u8, Group = g>`, spelled with a leading `::` (`lead`) and with `::` before `<` (`turbo`), e.g.
    `::Dispatch::<u8, Group = GroupA>`; `g = none`: without the binding, i.e. as `tbTokens` prints it -/
def dispatchSp (lead turbo : Bool) (g : Option String) : T :=
  .node "Path" [] [.node "IgnL" [] [colon lead], .node "List" [] [
   .node "PathSegment" [] [.node "Ident" ["Dispatch"] [], .node "PathArguments::AngleBracketed" [] [.node "Ign" [] [colon turbo],
    .node "List" [] (.node "GenericArgument::Type" [] [u8] :: (match g with
      | some g => [.node "GenericArgument::AssocType" [] [.node "AssocType" [] [.node "Ident" ["Group"] [], leaf "None", Ex11.tyPath [Ex11.seg g]]]]
      | none => []))]]]]
/-- `impl<T: Dispatch<u8, Group = g>> Kita for T {}` with the bound spelled as above -/
def blockSp (lead turbo : Bool) (g : String) : T :=
  implOf [tyParam "T" [traitBound (dispatchSp lead turbo (some g))]] (Ex11.tyPath [Ex11.seg "T"])
def p0 : T := .tparam "_ŠČ0"
/-- `impl<T: ?Sized + Dispatch<Group = g>> Kita for T {}` -/
def blockSized (g : String) : T :=
  implOf [tyParam "T" [ExInh.maybeSized, traitBound (dispatch g)]] (Ex11.tyPath [Ex11.seg "T"])
/-- `Dispatch<>` -/
def dispatchEmpty : T := Ex11.path [.node "PathSegment" [] [.node "Ident" ["Dispatch"] [],
  .node "PathArguments::AngleBracketed" [] [.node "Ign" [] [Ex11.leaf "None"], .node "List" [] []]]]
/-- `where _ŠČ0: Dispatch<u8>, Self: _Kita0<<_ŠČ0 as Dispatch<u8>>::Group>` with `Dispatch<u8>` spelled as requested -/
def expectedWhere (lead turbo : Bool) : List T :=
  [whereType p0 [traitBoundOf (dispatchSp lead turbo none)],
   whereType selfTy [traitBoundOf (pathNode noLead [DI.seg "_Kita0"
     (DI.angle [gaType (qualified_em p0 (dispatchSp lead turbo none) "Group")])])]]
def ltA : T := .node "Lifetime" [] [.node "Ident" ["a"] []]
/-- `for<'a>` as the `lifetimes` field of a `syn::TraitBound` -/
def forA : T := .node "Some" [] [.node "BoundLifetimes" [] [.node "List" [] [.node "GenericParam::Lifetime" []
  [.node "LifetimeParam" [] [attrs, ltA, leaf "None", .node "List" [] []]]]]]
/-- `Dispatch<'a, Group = g>`; `g = none`: `Dispatch<'a>` -/
def dispatchLt (g : Option String) : T :=
  path [.node "PathSegment" [] [.node "Ident" ["Dispatch"] [], .node "PathArguments::AngleBracketed" [] [.node "Ign" [] [leaf "None"],
    .node "List" [] (.node "GenericArgument::Lifetime" [] [ltA] :: (match g with
      | some g => [.node "GenericArgument::AssocType" [] [.node "AssocType" [] [.node "Ident" ["Group"] [], leaf "None", Ex11.tyPath [Ex11.seg g]]]]
      | none => []))]]]
/-- the higher-ranked bound `for<'a> p` -/
def hrBound (p : T) : T :=
  .node "TypeParamBound::Trait" [] [.node "TraitBound" [] [leaf "None", leaf "TraitBoundModifier::None", forA, p]]
/-- `impl<T: for<'a> Dispatch<'a, Group = g>> Kita for T {}` -/
def blockHr (g : String) : T := implOf [tyParam "T" [hrBound (dispatchLt (some g))]] (Ex11.tyPath [Ex11.seg "T"])
end Ex12

section EmitExamples
open Ex12
set_option maxRecDepth 1000000

/-- spelling is preserved by `tbTokens`: `::Dispatch::<u8, Group = GroupA>` ↦ `::Dispatch::<u8>` -/
example : tbTokens (dispatchSp true true (some "GroupA")) = dispatchSp true true none ∧
    isPathNode_em (dispatchSp true true (some "GroupA")) = true := by decide

/-- the README input, first block spelled `::Dispatch::<u8, Group = GroupA>`, second `Dispatch<u8, Group = GroupB>`:
    accepted, both generators succeed (the hypotheses of `C12_main_where_clause_emits_tbTokens` and
    `C12_helper_wildcards_emit_tbTokens`), the key map is proper, and the where-clause of the main impl is literally
    `_ŠČ0: Dispatch<u8>, Self: _Kita0<<_ŠČ0 as Dispatch<u8>>::Group>` — the LAST member's spelling, bindings removed;
    the helper impls print their payloads -/
example : ExOK.checkFirst [blockSp true true "GroupA", blockSp false false "GroupB"] (fun g hs m =>
    keysProper_em g.2.1 && implWhere_em m == expectedWhere false false &&
    hs.map implTraitArgs_em == [[gaType (Ex11.tyPath [Ex11.seg "GroupA"])], [gaType (Ex11.tyPath [Ex11.seg "GroupB"])]]) = true := by
  with_unfolding_all decide

/-- the blocks in the other order: now `::Dispatch::<u8>` is printed, leading `::` and `::<` included -/
example : ExOK.checkFirst [blockSp false false "GroupB", blockSp true true "GroupA"] (fun g _ m =>
    keysProper_em g.2.1 && implWhere_em m == expectedWhere true true) = true := by
  with_unfolding_all decide

/-- finding F-D3 in terms of what is printed: in the family `(T, U)` with the nested member
    `(T, Vec<U>) where Vec<U>: Dispatch` (inputs of `C01_expandOK_wildcard_counterexample`) the wildcard entry of the
    second member's row is printed as the projection of the FAMILY's key, `<_ŠČ1 as Dispatch>::Group`, although the
    member's substitution maps `_ŠČ1` to `Vec<_ŠČ1>`: it is not `<Vec<_ŠČ1> as Dispatch>::Group` -/
theorem C12_helper_wildcard_prints_family_key_counterexample :
    ExOK.checkFirst [ExOK.d3a, ExOK.d3b] (fun g hs _ =>
      match hs[1]?, g.2.1.idents[1]?, g.2.1.payloads[1]?, (thetasOf g)[1]? with
      | some h, some kx, some row, some θ =>
          row[1]? == some none &&
          (implTraitArgs_em h)[1]? == some (gaType (projection kx.1.1 kx.1.2 kx.2)) &&
          inst θ kx.1.1 != kx.1.1 &&
          (implTraitArgs_em h)[1]? != some (gaType (projection (inst θ kx.1.1) kx.1.2 kx.2))
      | _, _, _, _ => false) = true := by with_unfolding_all decide

/-- non-vacuity of `C12_emitted_bound_is_a_members_bound`: the spelled README input is un-nested and well-formed, it
    is accepted, and the key printed is the bound the LAST block wrote (`Dispatch<u8, Group = GroupB>` on `_ŠČ0`) -/
example : (noNesting [blockSp true true "GroupA", blockSp false false "GroupB"] &&
    flatWF0 [blockSp true true "GroupA", blockSp false false "GroupB"] &&
    ExOK.checkFirst [blockSp true true "GroupA", blockSp false false "GroupB"] (fun g _ _ =>
      g.2.1.idents.map (fun kx => kx.1) == [(p0, dispatchSp false false (some "GroupB"))] &&
      (match g.2.2.getLast? with
       | some l => l.raw.map (fun rb => (rb.bounded, rb.tr)) == [(p0, dispatchSp false false (some "GroupB"))]
       | none => false))) = true := by
  with_unfolding_all decide

/-- `noNesting` is needed for the literal statement: in the nested family of `C12_helper_wildcard_prints_family_key_counterexample`
    the second stored key is `_ŠČ1: Dispatch` — the last member's `Vec<_ŠČ1>: Dispatch` re-expressed over the family's
    parameters — and no member wrote that bound (the first wrote `_ŠČ1: Dispatch<Group = GroupA>`) -/
theorem C12_nested_emitted_bound_not_written_counterexample :
    (!noNesting [ExOK.d3a, ExOK.d3b] &&
    ExOK.checkFirst [ExOK.d3a, ExOK.d3b] (fun g _ _ =>
      match g.2.1.idents[1]? with
      | some kx => g.2.2.all (fun b => b.raw.all (fun rb => !((rb.bounded, rb.tr) == kx.1)))
      | none => false)) = true := by with_unfolding_all decide

/-- non-vacuity (inherent mode, hypotheses of `C12_main_where_clause_emits_tbTokens_inherent` and of the inherent branch
    of `C12_helper_impl_arguments`): two blocks `impl<T: Dispatch<Group = g>> Wrapper<T> { … }`; the main impl's
    where-clause is literally `_ŠČ0: Dispatch<>, Self: _Wrapper0<<_ŠČ0 as Dispatch<>>::Group, _ŠČ0>` (`Dispatch<Group = g>`
    with exactly the binding removed is `Dispatch<>`), the helper impls are for `_Wrapper0<GroupA, _ŠČ0>` and
    `_Wrapper0<GroupB, _ŠČ0>`, and both exact checkers accept -/
example : ExInh.checkFirst [ExInh.blockW "GroupA", ExInh.blockW "GroupB"] (fun g _ hs m =>
    inherentFamily_inh g && mainWhereExact_em none 0 g m && helperRowsExact_em g hs &&
    implWhere_em m == [whereType p0 [traitBoundOf dispatchEmpty],
      whereType selfTy [traitBoundOf (pathNode noLead [DI.seg "_Wrapper0"
        (DI.angle [gaType (qualified_em p0 dispatchEmpty "Group"), gaType p0])])]] &&
    hs.map implTraitArgs_em == [[gaType (Ex11.tyPath [Ex11.seg "GroupA"]), gaType p0],
      [gaType (Ex11.tyPath [Ex11.seg "GroupB"]), gaType p0]] &&
    hs.map implTraitName_em == ["_Wrapper0", "_Wrapper0"]) = true := by
  with_unfolding_all decide

/-- the `?Sized` clause: `impl<T: ?Sized + Dispatch<Group = g>> Kita for T {}` twice; the bounded type is relaxed
    (`g.2.1.unsized = [_ŠČ0]`) and the predicate is `_ŠČ0: ?Sized + Dispatch<>`, `?Sized` first -/
example : ExOK.checkFirst [blockSized "GroupA", blockSized "GroupB"] (fun g _ m =>
    g.2.1.unsized == [p0] &&
    implWhere_em m == [whereType p0 [maybeSizedBound, traitBoundOf dispatchEmpty],
      whereType selfTy [traitBoundOf (pathNode noLead [DI.seg "_Kita0"
        (DI.angle [gaType (qualified_em p0 dispatchEmpty "Group")])])]]) = true := by
  with_unfolding_all decide

/-- **Counterexample (new finding): the `for<…>` binder of a dispatch bound is dropped.** `TraitBound` stores only the
    PATH of the user's bound, so the bound printed in the where-clause of the main impl is the user's PATH with exactly
    the bindings removed (the theorems above) — not the user's whole BOUND: for
    `impl<T: for<'a> Dispatch<'a, Group = g>> Kita for T {}` (twice, `g = GroupA / GroupB`) the invocation is accepted,
    both generators succeed, and the key predicate is `_ŠČ0: Dispatch<'a>` (a bound without binder), which is different
    from the user's bound with the binding removed, `for<'a> Dispatch<'a>`; the lifetime `'a` is now free in the
    where-clause and the main impl does not declare it (rustc: E0261 on the real expansion). -/
theorem C12_bound_binder_dropped_counterexample :
    ExOK.checkFirst [blockHr "GroupA", blockHr "GroupB"] (fun g _ m =>
      g.2.1.idents.map (fun kx => kx.1) == [(p0, dispatchLt (some "GroupB"))] &&
      (implWhere_em m).head? == some (whereType p0 [traitBoundOf (dispatchLt none)]) &&
      traitBoundOf (dispatchLt none) != hrBound (dispatchLt none) &&
      (identsOfL_inh (implWhere_em m)).contains "a" &&
      !((genericsParams (XOK.kid m 3)).filterMap paramIdent).contains "a") = true := by
  with_unfolding_all decide
end EmitExamples

/-! ## Parenthesized arguments (`Fn(A) -> B`), /repo 94aac73

Before the repair every comparison or hash of a bound with parenthesized arguments hit `unreachable!()`; now the
argument list is compared and hashed as printed. `lastParen p = some x`: the last segment of `p` has the parenthesized
argument node `x` (inputs and output type); `cmpPath q ∧ lastParen q = none`: the last segment of `q` has no or
angle-bracketed arguments. -/

/-- **No panic for the three argument forms**: if the last segments of both paths (each with at least one segment) have
    no, angle-bracketed or parenthesized arguments (`cmpPath`, executable), `TraitBound::eq` answers `true` or `false`
    in both orders and `TraitBound::hash` feeds the hasher for both; and `cmpPath` is exactly the condition under which a
    path can be compared with itself. -/
theorem C12_parenthesized_never_panics (p q : T) (hp : cmpPath p = true) (hq : cmpPath q = true) :
    tbEq p q ≠ .panic ∧ tbEq q p ≠ .panic ∧ (hashFeed p).isSome = true ∧ (hashFeed q).isSome = true := by
  have hf : ∀ r, cmpPath r = true → (hashFeed r).isSome = true := by
    intro r hr; rw [hashFeed_eq_map, Option.isSome_map, keyOf_isSome, hr]
  refine ⟨?_, ?_, hf p hp, hf q hq⟩
  · rcases C12_total p q hp hq with h | h <;> rw [h] <;> decide
  · rcases C12_total q p hq hp with h | h <;> rw [h] <;> decide

theorem C12_never_panics_iff (p : T) : tbEq p p ≠ .panic ↔ cmpPath p = true := by
  rw [tbEq_self]
  cases cmpPath p <;> simp

/-- **The identity on parenthesized forms.** For a path `p` whose last segment has the parenthesized arguments `x`:
    * against a path with parenthesized arguments `y`: equal iff the leading segments, the identifier and the WHOLE
      argument nodes (inputs and output type) are equal;
    * against a comparable path with no or angle-bracketed arguments: never equal, in either order (and no panic) —
      `Fn(u8) -> u8` and `Fn<(u8,), Output = u8>` are different dispatch keys. -/
theorem C12_parenthesized_identity (p q x : T) (hx : lastParen p = some x) :
    (∀ y, lastParen q = some y →
      (tbEq p q = .t ↔ initSegs p = initSegs q ∧ lastIdent p = lastIdent q ∧ x = y)) ∧
    (cmpPath q = true → lastParen q = none → tbEq p q = .f ∧ tbEq q p = .f) := by
  have hp := cmpPath_of_lastParen hx
  constructor
  · intro y hy
    have hq := cmpPath_of_lastParen hy
    rw [C12_eq_iff_key p q hp, C12_nothing_else p q hp hq, lastArgs_nil_of_lastParen hx,
      lastArgs_nil_of_lastParen hy, hx, hy, Option.some.injEq]
    simp
  · intro hq hn
    have hne : ¬ tbEq p q = .t := by
      rw [C12_eq_iff_key p q hp, C12_nothing_else p q hp hq, hx, hn]
      simp
    have hf : tbEq p q = .f := by
      rcases C12_total p q hp hq with h | h
      · exact absurd h hne
      · exact h
    exact ⟨hf, by rw [← C12_symm]; exact hf⟩

section ParenForms
private def pu8 : T := .node "Type::Path" [] [.node "None" [] [], fpath [fseg "u8" (.node "PathArguments::None" [] [])]]
private def pu16 : T := .node "Type::Path" [] [.node "None" [] [], fpath [fseg "u16" (.node "PathArguments::None" [] [])]]
/-- `(inputs) -> out` / `(inputs)` as `syn` prints the `PathArguments::Parenthesized` node -/
private def fparen (inputs : List T) (out : Option T) : T :=
  .node "PathArguments::Parenthesized" [] [.node "List" [] inputs,
    (match out with | some t => .node "ReturnType::Type" [] [t] | none => .node "ReturnType::Default" [] [])]
/-- `Output = u8` -/
private def outU8 : T := .node "GenericArgument::AssocType" [] [.node "AssocType" [] [.node "Ident" ["Output"] [], .node "None" [] [], pu8]]
/-- `(u8,)` as a generic argument -/
private def tupU8 : T := .node "GenericArgument::Type" [] [.node "Type::Tuple" [] [.node "List" [] [pu8]]]

private def fnRet8 : T := fpath [fseg "Fn" (fparen [pu8] (some pu8))]        -- `Fn(u8) -> u8`
private def fnRet16 : T := fpath [fseg "Fn" (fparen [pu8] (some pu16))]      -- `Fn(u8) -> u16`
private def fnNoRet : T := fpath [fseg "Fn" (fparen [pu8] none)]             -- `Fn(u8)`
private def fnAngle : T := fpath [fseg "Fn" (fangle [tupU8, outU8])]         -- `Fn<(u8,), Output = u8>`
private def fnAngleNoOut : T := fpath [fseg "Fn" (fangle [tupU8])]           -- `Fn<(u8,)>`
private def fnBare : T := fpath [fseg "Fn" (.node "PathArguments::None" [] [])]  -- `Fn`
private def opsFnRet8 : T := fpath [fseg "ops" (.node "PathArguments::None" [] []), fseg "Fn" (fparen [pu8] (some pu8))]  -- `ops::Fn(u8) -> u8`

/-- all five forms are well-formed (hence comparable), which is the hypothesis of `C12_parenthesized_never_panics`,
    `C12_total`, `C12_nothing_else`, …; the parenthesized ones satisfy the hypothesis of `C12_parenthesized_identity`, the
    other two its second case -/
example : [fnRet8, fnRet16, fnNoRet, fnAngle, fnBare, opsFnRet8].all (fun p => wfPath p && cmpPath p && noParenArg p) = true ∧
    lastParen fnRet8 = some (fparen [pu8] (some pu8)) ∧ lastParen fnNoRet = some (fparen [pu8] none) ∧
    lastParen fnAngle = none ∧ lastParen fnBare = none := by decide

/-- the comparison table of `Fn(u8) -> u8`, `Fn(u8) -> u16`, `Fn(u8)`, `Fn<(u8,), Output = u8>`, `Fn`: a parenthesized
    form equals only itself (the output type counts, the leading segments count); it differs from the angle-bracketed
    and the bare form in both orders; the angle-bracketed form still ignores its binding; nothing panics -/
theorem C12_parenthesized_forms :
    tbEq fnRet8 fnRet8 = .t ∧ tbEq fnNoRet fnNoRet = .t ∧
    tbEq fnRet8 fnRet16 = .f ∧ tbEq fnRet16 fnRet8 = .f ∧
    tbEq fnRet8 fnNoRet = .f ∧ tbEq fnNoRet fnRet8 = .f ∧
    tbEq fnRet8 fnAngle = .f ∧ tbEq fnAngle fnRet8 = .f ∧
    tbEq fnRet8 fnBare = .f ∧ tbEq fnBare fnRet8 = .f ∧
    tbEq fnNoRet fnBare = .f ∧ tbEq fnBare fnNoRet = .f ∧
    tbEq fnRet8 opsFnRet8 = .f ∧ tbEq opsFnRet8 opsFnRet8 = .t ∧
    tbEq fnAngle fnAngleNoOut = .t ∧ tbEq fnAngle fnBare = .f := by decide

/-- keys and hasher feeds of the forms: the key of `Fn(u8) -> u8` is `⟨[], Fn, [], some (u8) -> u8⟩`; its feed is the
    identifier followed by the argument node; different forms have different keys and different feeds; the printed bound
    of a parenthesized form is the bound itself -/
theorem C12_parenthesized_keys :
    keyOf fnRet8 = some ⟨[], some "Fn", [], some (fparen [pu8] (some pu8))⟩ ∧
    hashFeed fnRet8 = some [Feed.ident (some "Fn"), Feed.arg (fparen [pu8] (some pu8))] ∧
    keyOf fnRet8 ≠ keyOf fnRet16 ∧ keyOf fnRet8 ≠ keyOf fnNoRet ∧ keyOf fnRet8 ≠ keyOf fnAngle ∧
    keyOf fnRet8 ≠ keyOf fnBare ∧ keyOf fnNoRet ≠ keyOf fnBare ∧
    hashFeed fnRet8 ≠ hashFeed fnRet16 ∧ hashFeed fnRet8 ≠ hashFeed fnAngle ∧ hashFeed fnNoRet ≠ hashFeed fnBare ∧
    tbTokens fnRet8 = fnRet8 ∧ tbTokens fnAngle = fnAngleNoOut := by decide

/-- `noParenArg` cannot be dropped from `C12_hash_iff` (in the model): the — ill-formed for `syn` — path `Tr<X>` whose ONE
    generic argument `X` is the parenthesized-arguments node `(u8)` and the path `Tr(u8)` are both `wfPath`, have
    different keys, compare unequal, and feed the hasher identically (identifier, then `X`). This does not break
    `k1 == k2 → hash(k1) == hash(k2)` (`C12_hash_agrees`). The real code has the analogous, equally harmless
    coincidence on `syn` trees: `Tr<(u8)>` and `Tr(u8)` both feed the identifier and the token string `(u8)`. -/
theorem C12_hash_iff_counterexample :
    let pA := fpath [fseg "Tr" (fangle [fparen [pu8] none])]
    let pP := fpath [fseg "Tr" (fparen [pu8] none)]
    wfPath pA = true ∧ wfPath pP = true ∧ noParenArg pA = false ∧ noParenArg pP = true ∧
    hashFeed pA = hashFeed pP ∧ keyOf pA ≠ keyOf pP ∧ tbEq pA pP = .f ∧ tbEq pP pA = .f := by decide

open Ex11 in
/-- `impl<T: Dispatch<Group = g> + Fn(u8) -> u8> Kita for T {}` -/
private def blockFn (g : String) : T :=
  implOf [tyParam "T" [traitBound (dispatch g), traitBound fnRet8]] (Ex11.tyPath [Ex11.seg "T"])

set_option maxRecDepth 1000000 in
/-- regression witness of the repaired defect D47 (/repo 94aac73) at the level of the whole grouping: two blocks
    `impl<T: Dispatch<Group = g> + Fn(u8) -> u8> Kita for T {}` (`g = GroupA / GroupB`) — before the repair hashing the
    bound `Fn(u8) -> u8` panicked. Now the input is un-nested and well-formed in the sense of C05 (`flatWF0`, which asks
    `wfPath` of every bound, `Fn(u8) -> u8` included), it is accepted with one family of two members, the only dispatch
    key that survives pruning is `_ŠČ0: Dispatch<Group = …>` (the `Fn` bound binds nothing), both generators succeed
    and the exact where-clause checker accepts the main impl. -/
theorem C12_parenthesized_bound_accepted :
    (noNesting [blockFn "GroupA", blockFn "GroupB"] && flatWF0 [blockFn "GroupA", blockFn "GroupB"] &&
     (mkBlk (blockFn "GroupA")).raw.any (fun rb => lastParen rb.tr != none) &&
     ExOK.checkFirst [blockFn "GroupA", blockFn "GroupB"] (fun g hs m =>
       g.2.2.length == 2 && hs.length == 2 && g.2.1.idents.length == 1 && keysProper_em g.2.1 &&
       mainWhereExact_em (some ExOK.kitaTrait) 0 g m && helperRowsExact_em g hs)) = true := by
  with_unfolding_all decide
end ParenForms

end DI
