/-
  C12 — dispatch-key identity (`TraitBound: PartialEq / Hash / ToTokens`, model `Key.lean`): property
  theorems. All proofs are in `Lemmas/KeyLemmas.lean`.

  `wfPath p` (executable): `p` has at least one segment, every segment has an identifier, and the last
  segment has no parenthesized arguments (those hit `unreachable!()` in the code).
  Accessors (`Lemmas/KeyLemmas.lean`): `initSegs p` (all segments but the last), `lastIdent p`,
  `lastArgs p` (generic arguments of the last segment, `[]` when there are none).

  All statements hold as posed; `C12_ignores_bindings`, `C12_tokens_strip_only_bindings`,
  `C12_strip_idempotent` and `C12_hash_of_key` need no well-formedness.
-/
import DisjointImpls.Lemmas.KeyLemmas
namespace DI

/-- on well-formed paths `TraitBound::eq` is equality of keys -/
theorem C12_eq_iff_key (p q : T) (hp : wfPath p = true) (hq : wfPath q = true) :
    tbEq p q = .t ↔ keyOf p = keyOf q := by
  rw [tbEq_eq hp hq, keyOf_eq hp, keyOf_eq hq, Option.some.injEq]
  by_cases h : keyOf' p = keyOf' q <;> simp [h]

/-- never panics on well-formed paths -/
theorem C12_total (p q : T) (hp : wfPath p = true) (hq : wfPath q = true) :
    tbEq p q = .t ∨ tbEq p q = .f := by
  rw [tbEq_eq hp hq]
  by_cases h : keyOf' p = keyOf' q <;> simp [h]

theorem C12_refl (p : T) (hp : wfPath p = true) : tbEq p p = .t :=
  (C12_eq_iff_key p p hp hp).2 rfl

theorem C12_symm (p q : T) (hp : wfPath p = true) (hq : wfPath q = true) : tbEq p q = tbEq q p := by
  rw [tbEq_eq hp hq, tbEq_eq hq hp]
  by_cases h : keyOf' p = keyOf' q
  · simp [h]
  · have h' : ¬ keyOf' q = keyOf' p := fun e => h e.symm
    simp [h, h']

theorem C12_trans (p q r : T) (hp : wfPath p = true) (hq : wfPath q = true) (hr : wfPath r = true) :
    tbEq p q = .t → tbEq q r = .t → tbEq p r = .t := by
  rw [C12_eq_iff_key p q hp hq, C12_eq_iff_key q r hq hr, C12_eq_iff_key p r hp hr]
  exact Eq.trans

/-- the hasher is fed a function of the key (no well-formedness needed) -/
theorem C12_hash_of_key (p q : T) : keyOf p = keyOf q → hashFeed p = hashFeed q := by
  intro h; rw [hashFeed_eq_map, hashFeed_eq_map, h]

/-- `k1 == k2 → hash(k1) == hash(k2)` -/
theorem C12_hash_agrees (p q : T) (hp : wfPath p = true) (hq : wfPath q = true) :
    tbEq p q = .t → hashFeed p = hashFeed q :=
  fun h => C12_hash_of_key p q ((C12_eq_iff_key p q hp hq).1 h)

/-- the feed determines the key: the hash distinguishes exactly what `eq` distinguishes (before hashing) -/
theorem C12_hash_iff (p q : T) (hp : wfPath p = true) (hq : wfPath q = true) :
    hashFeed p = hashFeed q ↔ keyOf p = keyOf q := by
  refine ⟨fun h => ?_, C12_hash_of_key p q⟩
  rw [hashFeed_eq_map, hashFeed_eq_map, keyOf_eq hp, keyOf_eq hq] at h
  simp only [Option.map_some, Option.some.injEq] at h
  rw [keyOf_eq hp, keyOf_eq hq, feedOf_inj h]

/-- bindings are ignored: removing the `GenericArgument::AssocType` arguments of the last segment does not
    change the key -/
theorem C12_ignores_bindings (p : T) : keyOf (stripBindings p) = keyOf p := keyOf_stripBindings p

section Forms
private def seg (n : String) (args : T) : T := .node "PathSegment" [] [.node "Ident" [n] [], args]
private def path (segs : List T) : T := .node "Path" [] [.node "IgnL" [] [.node "None" [] []], .node "List" [] segs]
private def angle (args : List T) : T :=
  .node "PathArguments::AngleBracketed" [] [.node "Ign" [] [.node "None" [] []], .node "List" [] args]
private def binding : T := .node "GenericArgument::AssocType" [] [.node "Ident" ["A"] [], .node "None" [] [], .tparam "X"]

/-- `Tr`, `Tr<>`, `Tr<A = X>` have the same key; `Tr<u8>` and `Tr<u8, A = X>` too, and a different one -/
theorem C12_tr_forms :
    keyOf (path [seg "Tr" (.node "PathArguments::None" [] [])]) = keyOf (path [seg "Tr" (angle [])]) ∧
    keyOf (path [seg "Tr" (angle [])]) = keyOf (path [seg "Tr" (angle [binding])]) ∧
    keyOf (path [seg "Tr" (angle [.node "GenericArgument::Type" [] [.tparam "U"]])]) =
      keyOf (path [seg "Tr" (angle [.node "GenericArgument::Type" [] [.tparam "U"], binding])]) ∧
    keyOf (path [seg "Tr" (angle [.node "GenericArgument::Type" [] [.tparam "U"]])]) ≠
      keyOf (path [seg "Tr" (angle [])]) ∧
    tbEq (path [seg "Tr" (.node "PathArguments::None" [] [])]) (path [seg "Tr" (angle [binding])]) = .t ∧
    wfPath (path [seg "Tr" (angle [binding])]) = true := by
  decide
end Forms

/-- nothing else is ignored: equal keys mean the same leading segments, the same identifier and the same
    non-binding arguments in the same order -/
theorem C12_nothing_else (p q : T) (hp : wfPath p = true) (hq : wfPath q = true) :
    keyOf p = keyOf q ↔
      initSegs p = initSegs q ∧ lastIdent p = lastIdent q ∧ nonAssoc (lastArgs p) = nonAssoc (lastArgs q) := by
  rw [keyOf_eq hp, keyOf_eq hq, Option.some.injEq]
  simp only [keyOf', TraitKey.mk.injEq]

/-- the key of a well-formed path, component by component -/
theorem C12_key_components (p : T) (hp : wfPath p = true) :
    keyOf p = some ⟨initSegs p, lastIdent p, nonAssoc (lastArgs p)⟩ := keyOf_eq hp

/-- the printed bound is the user's bound with exactly the bindings removed: same leading segments, same
    identifier, the arguments of the last segment filtered in order -/
theorem C12_tokens_parts (p : T) :
    initSegs (tbTokens p) = initSegs p ∧ lastIdent (tbTokens p) = lastIdent p ∧
    lastArgs (tbTokens p) = nonAssoc (lastArgs p) := stripBindings_parts p

theorem C12_tokens_strip_only_bindings (p : T) :
    keyOf (tbTokens p) = keyOf p ∧ nonAssoc (lastArgs (tbTokens p)) = lastArgs (tbTokens p) := by
  refine ⟨keyOf_stripBindings p, ?_⟩
  rw [(C12_tokens_parts p).2.2, nonAssoc_idem]

/-- the printed bound is again a well-formed path, equal (as a key) to the bound -/
theorem C12_tokens_eq (p : T) (hp : wfPath p = true) : wfPath (tbTokens p) = true ∧ tbEq (tbTokens p) p = .t := by
  have hw : wfPath (tbTokens p) = true := by unfold tbTokens; rw [wfPath_stripBindings, hp]
  exact ⟨hw, (C12_eq_iff_key _ _ hw hp).2 (keyOf_stripBindings p)⟩

theorem C12_strip_idempotent (p : T) : stripBindings (stripBindings p) = stripBindings p :=
  stripBindings_idem p

/-- outside `wfPath` the comparison panics (parenthesized arguments, no segments) -/
theorem C12_panics_outside :
    tbEq (.node "Path" [] [.node "IgnL" [] [.node "None" [] []], .node "List" [] [.node "PathSegment" [] [.node "Ident" ["Fn"] [],
      .node "PathArguments::Parenthesized" [] []]]]) (.node "Path" [] [.node "IgnL" [] [.node "None" [] []], .node "List" [] [.node "PathSegment" [] [.node "Ident" ["Fn"] [],
      .node "PathArguments::Parenthesized" [] []]]]) = .panic := by decide

end DI
