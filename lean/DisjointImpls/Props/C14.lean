import DisjointImpls.Validate
namespace DI
theorem C14_placeholder : (1 : Nat) = 1 := rfl
end DI
