/-
  C14 — validation of the blocks of a family (`validate.rs`, model `Validate.lean`): property theorems.
  All proofs are in `Lemmas/ValidateLemmas.lean`.

  Item level (lists of `ItemSig`): the acceptance characterisation of `compare_trait_items` /
  `compare_inherent_items` on clean lists (`cleanItems`: no unsupported item, no duplicate (kind, name)),
  and the diagnostic of every single-defect mutation of an accepted input.
  A block may name an item several times (the same item under complementary `cfg` attributes): the code enters
  the items into look-up tables in which a repeated name overwrites (`itemMap`, `Validate.lean`); the section
  "Repeated item names" states what that means. On blocks without repeated names nothing differs
  (`C14_no_repeats_table_is_block`). In inherent mode BOTH blocks are turned into tables since /repo 133a44b (before, the
  first block was walked as a slice and a first block that repeated a name was rejected): `C14_inherent_first_block_table`,
  `C14_inherent_items_ok_iff_tables`; an unsupported item of the first block gives "Not supported" while its table is built.
  Family level: the first failing check determines the diagnostic; header checks come before item checks.

  Definitions used in the statements (`Lemmas/ValidateLemmas.lean`, all executable or decidable):
  `cleanItems`, `dropItem k x xs` (the list without the item of kind `k` called `x`), `TraitAccept`,
  `InherentAccept`, `traitHeader`, `traitItemsCheck`, `inherentHeader`, `validateFamily`.
-/
import DisjointImpls.Lemmas.ValidateLemmas
namespace DI

/-! ## Item level, trait mode -/

/-- acceptance: nothing required is missing, nothing extra, const generics arity agrees -/
theorem C14_trait_items_ok_iff (ts second : List ItemSig) (hts : cleanItems ts = true)
    (hs : cleanItems second = true) :
    compareTraitItems ts second = .ok () ↔
      (∀ t ∈ ts, t.hasDefault = false → ∃ s ∈ second, s.kind = t.kind ∧ s.ident = t.ident) ∧
      (∀ s ∈ second, ∃ t ∈ ts, t.kind = s.kind ∧ t.ident = s.ident) ∧
      (∀ t ∈ ts, ∀ s ∈ second, t.kind = .const → s.kind = .const → s.ident = t.ident → t.arity = s.arity) :=
  compareTraitItems_ok_iff ts second hts hs

/-- omitting an item that has a trait default is allowed (the hypothesis `cleanItems second` is kept in the statement for
    the callers; it is no longer used: `C14_default_may_be_omitted_any` is the statement without it) -/
theorem C14_default_may_be_omitted (ts second : List ItemSig) (t : ItemSig) (hts : cleanItems ts = true)
    (_hs : cleanItems second = true) (hok : compareTraitItems ts second = .ok ()) (ht : t ∈ ts)
    (hd : t.hasDefault = true) : compareTraitItems ts (dropItem t.kind t.ident second) = .ok () :=
  compareTraitItems_default_omitted ts second t hts hok ht hd

/-- removing the item a required trait item asks for: "Missing in one of the impls" -/
theorem C14_missing_item (ts second : List ItemSig) (t : ItemSig) (hts : cleanItems ts = true)
    (hok : compareTraitItems ts second = .ok ()) (ht : t ∈ ts) (hd : t.hasDefault = false) :
    compareTraitItems ts (dropItem t.kind t.ident second) = .error .missing :=
  compareTraitItems_missing ts second t hts hok ht hd

/-- an item the trait does not declare, inserted at any position: "Not found in trait definition" -/
theorem C14_extra_item (ts l1 l2 : List ItemSig) (x : ItemSig) (hok : compareTraitItems ts (l1 ++ l2) = .ok ())
    (hx : x.kind ≠ .other) (hn : ∀ t ∈ ts, ¬ (t.kind = x.kind ∧ t.ident = x.ident)) :
    compareTraitItems ts (l1 ++ x :: l2) = .error .notInTrait :=
  compareTraitItems_extra ts l1 l2 x hok hx hn

/-- a different number of generic parameters on an associated const: "Doesn't match trait definition" -/
theorem C14_const_arity (ts l1 l2 : List ItemSig) (s s' : ItemSig) (hts : cleanItems ts = true)
    (hcl : cleanItems (l1 ++ s :: l2) = true) (hok : compareTraitItems ts (l1 ++ s :: l2) = .ok ())
    (hsk : s.kind = .const) (hk : s'.kind = s.kind) (hi : s'.ident = s.ident) (ha : s'.arity ≠ s.arity) :
    compareTraitItems ts (l1 ++ s' :: l2) = .error .noMatch :=
  compareTraitItems_arity ts l1 l2 s s' hts hcl hok hsk hk hi ha

/-! ## Item level, inherent mode -/

/-- `compare_inherent_items` is `compare_trait_items` without defaults, with its own messages; the TABLE of the first
    block (`itemMap fs`: one entry per name) plays the trait's item list, and an unsupported item of the first block gives
    "Not supported" before anything is compared (/repo 133a44b). No side condition.
    (Before 133a44b the statement was `… = inhResult (compareTraitItems (fs.map ItemSig.strict) second)` for every `fs`;
    that is `C14_inherent_as_trait_clean` now, under `cleanItems fs`.) -/
theorem C14_inherent_as_trait (fs second : List ItemSig) :
    compareInherentItems fs second =
      if fs.any (fun i => i.kind = .other) then .error .notSupported
      else inhResult (compareTraitItems ((itemMap fs).map ItemSig.strict) second) :=
  compareInherentItems_eq fs second

/-- on a clean first block (no unsupported item, no repeated name): the first block itself plays the trait's item list -/
theorem C14_inherent_as_trait_clean (fs second : List ItemSig) (hf : cleanItems fs = true) :
    compareInherentItems fs second = inhResult (compareTraitItems (fs.map ItemSig.strict) second) :=
  compareInherentItems_eq_of_clean hf second

theorem C14_inherent_items_ok_iff (fs second : List ItemSig) (hf : cleanItems fs = true)
    (hs : cleanItems second = true) :
    compareInherentItems fs second = .ok () ↔
      (∀ f ∈ fs, ∃ s ∈ second, s.kind = f.kind ∧ s.ident = f.ident) ∧
      (∀ s ∈ second, ∃ f ∈ fs, f.kind = s.kind ∧ f.ident = s.ident) ∧
      (∀ f ∈ fs, ∀ s ∈ second, f.kind = .const → s.kind = .const → s.ident = f.ident → f.arity = s.arity) :=
  compareInherentItems_ok_iff fs second hf hs

/-- an item of the first block missing from another block: "Not found in one of the impls" -/
theorem C14_inherent_missing (fs second : List ItemSig) (f : ItemSig) (hfs : cleanItems fs = true)
    (hok : compareInherentItems fs second = .ok ()) (hf : f ∈ fs) :
    compareInherentItems fs (dropItem f.kind f.ident second) = .error .notInOneImpl :=
  compareInherentItems_missing fs second f hfs hok hf

/-- an item the first block does not have: "Not found in one of the impls" -/
theorem C14_inherent_extra (fs l1 l2 : List ItemSig) (x : ItemSig)
    (hok : compareInherentItems fs (l1 ++ l2) = .ok ()) (hx : x.kind ≠ .other)
    (hn : ∀ f ∈ fs, ¬ (f.kind = x.kind ∧ f.ident = x.ident)) :
    compareInherentItems fs (l1 ++ x :: l2) = .error .notInOneImpl :=
  compareInherentItems_extra fs l1 l2 x hok hx hn

/-- a different number of generic parameters on an associated const: "Generics don't match between impls" -/
theorem C14_inherent_arity (fs l1 l2 : List ItemSig) (s s' : ItemSig) (hfs : cleanItems fs = true)
    (hcl : cleanItems (l1 ++ s :: l2) = true) (hok : compareInherentItems fs (l1 ++ s :: l2) = .ok ())
    (hsk : s.kind = .const) (hk : s'.kind = s.kind) (hi : s'.ident = s.ident) (ha : s'.arity ≠ s.arity) :
    compareInherentItems fs (l1 ++ s' :: l2) = .error .genericsMismatch :=
  compareInherentItems_arity fs l1 l2 s s' hfs hcl hok hsk hk hi ha

/-! ## Family level -/

/-- the first impl whose header check fails determines the diagnostic, whatever the items are -/
theorem C14_header_error (trait_ : T) (pre : List T) (item : T) (post : List T) (d : Diag)
    (hpre : ∀ i ∈ pre, traitHeader trait_ i = .ok ()) (h : traitHeader trait_ item = .error d) :
    validateTraitImpls trait_ (pre ++ item :: post) = .error d := by
  rw [validateTraitImpls_eq, firstError_map_error_iff.2 ⟨pre, item, post, rfl, h, hpre⟩]

/-- an impl of another trait: "Doesn't match trait definition" -/
theorem C14_other_trait (trait_ : T) (pre : List T) (item : T) (post : List T) (p : T)
    (hpre : ∀ i ∈ pre, traitHeader trait_ i = .ok ()) (hp : implTraitPath item = some p)
    (hne : lastSegIdent p ≠ traitIdent trait_) :
    validateTraitImpls trait_ (pre ++ item :: post) = .error .noMatch :=
  C14_header_error trait_ pre item post _ hpre (by unfold traitHeader; rw [hp]; simp [hne])

/-- `unsafe impl` of a safe trait or the other way round: "Doesn't match trait definition" -/
theorem C14_unsafety (trait_ : T) (pre : List T) (item : T) (post : List T) (p : T)
    (hpre : ∀ i ∈ pre, traitHeader trait_ i = .ok ()) (hp : implTraitPath item = some p)
    (hid : lastSegIdent p = traitIdent trait_) (hne : traitUnsafety trait_ ≠ implUnsafety item) :
    validateTraitImpls trait_ (pre ++ item :: post) = .error .noMatch :=
  C14_header_error trait_ pre item post _ hpre (by unfold traitHeader; rw [hp]; simp [hid, hne])

/-- an inherent impl among trait impls: "Expected trait impl, found inherent impl" -/
theorem C14_inherent_in_trait_mode (trait_ : T) (pre : List T) (item : T) (post : List T)
    (hpre : ∀ i ∈ pre, traitHeader trait_ i = .ok ()) (hp : implTraitPath item = none) :
    validateTraitImpls trait_ (pre ++ item :: post) = .error .expectedTraitImpl :=
  C14_header_error trait_ pre item post _ hpre (by unfold traitHeader; rw [hp])

/-- a trait impl among inherent impls: "Expected inherent impl but found trait" -/
theorem C14_trait_in_inherent_mode (pre : List T) (item : T) (post : List T) (p : T)
    (hpre : ∀ i ∈ pre, implTraitPath i = none) (hp : implTraitPath item = some p) :
    validateInherentImpls (pre ++ item :: post) = .error .expectedInherent := by
  rw [validateInherentImpls_eq, firstError_map_error_iff.2 ⟨pre, item, post, rfl,
    by unfold inherentHeader; rw [hp], fun i hi => by unfold inherentHeader; rw [hpre i hi]⟩]

/-- header checks come first: if any header fails, the result is a header diagnostic, even if the items of an
    earlier impl are wrong (the two loops of `validate_trait_impls`) -/
theorem C14_headers_before_items (trait_ : T) (impls : List T)
    (h : ∃ item ∈ impls, traitHeader trait_ item ≠ .ok ()) :
    validateTraitImpls trait_ impls = .error .expectedTraitImpl ∨
    validateTraitImpls trait_ impls = .error .noMatch := by
  rw [validateTraitImpls_eq]
  cases hf : firstError (impls.map (traitHeader trait_)) with
  | ok u =>
    cases u
    obtain ⟨item, hi, hne⟩ := h
    exact absurd (firstError_map_ok_iff.1 hf item hi) hne
  | error d =>
    obtain ⟨pre, x, post, _, hx, _⟩ := firstError_map_error_iff.1 hf
    rcases traitHeader_cases trait_ x with h1 | h1 | h1
    · rw [h1] at hx; cases hx
    · rw [h1] at hx; cases hx; exact Or.inl rfl
    · rw [h1] at hx; cases hx; exact Or.inr rfl

/-- with all headers fine, the first impl whose items are rejected determines the diagnostic -/
theorem C14_items_error (trait_ : T) (pre : List T) (item : T) (post : List T) (d : Diag)
    (hh : ∀ i ∈ pre ++ item :: post, traitHeader trait_ i = .ok ())
    (hpre : ∀ i ∈ pre, traitItemsCheck trait_ i = .ok ()) (h : traitItemsCheck trait_ item = .error d) :
    validateTraitImpls trait_ (pre ++ item :: post) = .error d := by
  rw [validateTraitImpls_eq, firstError_map_ok_iff.2 hh]
  exact firstError_map_error_iff.2 ⟨pre, item, post, rfl, h, hpre⟩

/-- acceptance of a family: exactly when every header and every item list is accepted -/
theorem C14_family_ok_iff (trait_ : T) (impls : List T) :
    validateTraitImpls trait_ impls = .ok () ↔
      (∀ i ∈ impls, traitHeader trait_ i = .ok ()) ∧ (∀ i ∈ impls, traitItemsCheck trait_ i = .ok ()) := by
  rw [validateTraitImpls_eq]
  cases hf : firstError (impls.map (traitHeader trait_)) with
  | ok u =>
    cases u
    simp only
    rw [firstError_map_ok_iff]
    exact ⟨fun h => ⟨firstError_map_ok_iff.1 hf, h⟩, fun h => h.2⟩
  | error d =>
    simp only [reduceCtorEq, false_iff]
    intro h
    rw [firstError_map_ok_iff.2 h.1] at hf; cases hf

/-- no false positive: impls of the right trait with the right unsafety whose items satisfy the acceptance
    characterisation are accepted -/
theorem C14_no_false_positive (trait_ : T) (impls : List T) (hts : cleanItems (traitItems trait_) = true)
    (hh : ∀ i ∈ impls, ∃ p, implTraitPath i = some p ∧ lastSegIdent p = traitIdent trait_ ∧
      traitUnsafety trait_ = implUnsafety i)
    (hi : ∀ i ∈ impls, cleanItems (implItemSigs i) = true ∧ TraitAccept (traitItems trait_) (implItemSigs i)) :
    validateTraitImpls trait_ impls = .ok () := by
  rw [C14_family_ok_iff]
  refine ⟨fun i h => (traitHeader_ok_iff trait_ i).2 (hh i h), fun i h => ?_⟩
  exact (compareTraitItems_ok_iff _ _ hts (hi i h).1).2 (hi i h).2

/-- inherent family: every other block is compared with the first one — item sets, then visibilities -/
theorem C14_inherent_family_ok_iff (first : T) (rest : List T) :
    validateInherentImpls (first :: rest) = .ok () ↔
      (∀ i ∈ first :: rest, implTraitPath i = none) ∧
      (∀ i ∈ rest, compareInherentItems (implItemSigs first) (implItemSigs i) = .ok ()) ∧
      (∀ i ∈ rest, compareInherentVis (implItems first) (implItems i) = .ok ()) := by
  have hhdr : ∀ i : T, inherentHeader i = .ok () ↔ implTraitPath i = none := by
    intro i; unfold inherentHeader; cases implTraitPath i <;> simp
  rw [validateInherentImpls_eq]
  cases hf : firstError ((first :: rest).map inherentHeader) with
  | ok u =>
    cases u
    simp only
    cases hi : firstError (rest.map (fun item => compareInherentItems (implItemSigs first) (implItemSigs item))) with
    | ok u2 =>
      cases u2
      simp only
      rw [firstError_map_ok_iff]
      exact ⟨fun h => ⟨fun i hi' => (hhdr i).1 (firstError_map_ok_iff.1 hf i hi'), firstError_map_ok_iff.1 hi, h⟩, fun h => h.2.2⟩
    | error d =>
      simp only [reduceCtorEq, false_iff]
      intro h
      rw [firstError_map_ok_iff.2 h.2.1] at hi; cases hi
  | error d =>
    simp only [reduceCtorEq, false_iff]
    intro h
    rw [firstError_map_ok_iff.2 (fun i hi => (hhdr i).2 (h.1 i hi))] at hf; cases hf

theorem compareInherentVis_cases (a b : List T) :
    compareInherentVis a b = .ok () ∨ compareInherentVis a b = .error .visMismatch := by
  unfold compareInherentVis; split <;> simp

theorem firstError_vis (first : T) : ∀ (rest : List T),
    (∃ i ∈ rest, compareInherentVis (implItems first) (implItems i) = .error .visMismatch) →
    firstError (rest.map (fun item => compareInherentVis (implItems first) (implItems item))) = .error .visMismatch
  | [], h => by obtain ⟨_, hi, _⟩ := h; cases hi
  | i :: rest, h => by
    simp only [List.map_cons]
    rcases compareInherentVis_cases (implItems first) (implItems i) with h1 | h1
    · rw [h1]; simp only [firstError]
      obtain ⟨j, hj, hv⟩ := h
      rcases List.mem_cons.1 hj with rfl | hj'
      · rw [h1] at hv; cases hv
      · exact firstError_vis first rest ⟨j, hj', hv⟩
    · rw [h1]; simp only [firstError]

/-- (fix 48b34ff) inherent blocks that agree on their item sets but give one item different visibilities are rejected with
    "Visibility doesn't match between impls": the generated impl could only carry the first block's visibility -/
theorem C14_visibility_mismatch (first : T) (rest : List T)
    (hh : ∀ i ∈ first :: rest, implTraitPath i = none)
    (hi : ∀ i ∈ rest, compareInherentItems (implItemSigs first) (implItemSigs i) = .ok ())
    (hv : ∃ i ∈ rest, compareInherentVis (implItems first) (implItems i) = .error .visMismatch) :
    validateInherentImpls (first :: rest) = .error .visMismatch := by
  have hhdr : ∀ i : T, inherentHeader i = .ok () ↔ implTraitPath i = none := by
    intro i; unfold inherentHeader; cases implTraitPath i <;> simp
  rw [validateInherentImpls_eq, firstError_map_ok_iff.2 (fun i h => (hhdr i).2 (hh i h))]
  simp only
  rw [firstError_map_ok_iff.2 hi]
  simp only
  exact firstError_vis first rest hv

/-- atomic: `validateAll` answers `.ok ()` or exactly one diagnostic — that of the first failing family -/
theorem C14_atomic (trait_ : Option T) (fams : List (List T)) (d : Diag)
    (h : validateAll trait_ fams = .error d) :
    ∃ pre fam post, fams = pre ++ fam :: post ∧ validateFamily trait_ fam = .error d ∧
      ∀ f ∈ pre, validateFamily trait_ f = .ok () := by
  rw [validateAll_eq] at h
  exact firstError_map_error_iff.1 h

theorem C14_all_ok_iff (trait_ : Option T) (fams : List (List T)) :
    validateAll trait_ fams = .ok () ↔ ∀ fam ∈ fams, validateFamily trait_ fam = .ok () := by
  rw [validateAll_eq]; exact firstError_map_ok_iff

/-! ## Repeated item names (one item under complementary `cfg` attributes) -/

/-- a block without repeated (kind, name) pairs is its own look-up table: on such blocks the answers of
    `compareTraitItems` / `compareInherentItems` are those of the plain loops over the block. In inherent mode the FIRST
    block `fs` is a table as well (/repo 133a44b): an unsupported item in it aborts, otherwise the loop runs over its
    table — which is `fs` itself when `fs` is clean (last clause). -/
theorem C14_no_repeats_table_is_block (xs : List ItemSig) (h : (xs.map ItemSig.key).Nodup) :
    itemMap xs = xs ∧ (∀ ts, compareTraitItems ts xs = compareTraitItemsLoop ts xs) ∧
    (∀ fs, compareInherentItems fs xs =
      if fs.any (fun i => i.kind = .other) then .error .notSupported else compareInherentItemsLoop (itemMap fs) xs) ∧
    (∀ fs, cleanItems fs = true → compareInherentItems fs xs = compareInherentItemsLoop fs xs) :=
  ⟨itemMap_of_nodup h, fun ts => compareTraitItems_of_nodup ts h, fun fs => compareInherentItems_of_nodup fs h,
    fun _ hf => compareInherentItems_of_clean_nodup hf h⟩

/-- the look-up table of ANY block: no (kind, name) twice, exactly the names of the block, an unsupported item in the
    table iff one in the block -/
theorem C14_table (xs : List ItemSig) :
    ((itemMap xs).map ItemSig.key).Nodup ∧
    (∀ k x, (∃ s ∈ itemMap xs, s.kind = k ∧ s.ident = x) ↔ (∃ s ∈ xs, s.kind = k ∧ s.ident = x)) ∧
    (itemMap xs).any (fun i => i.kind = .other) = xs.any (fun i => i.kind = .other) :=
  ⟨itemMap_nodup xs, fun k x => itemMap_exists_iff (fun k' x' => k' = k ∧ x' = x) xs, itemMap_any_other xs⟩

/-- the look-up table of the model is the table the code builds: every item of the block entered from the left with
    `IndexMap::insert` (`insertItem`: an existing key keeps its position and gets the new value, a new key is appended) -/
theorem C14_table_is_insert_loop (xs : List ItemSig) : itemMap xs = xs.foldl insertItem [] :=
  itemMap_eq_foldl_insert xs

/-- acceptance WITHOUT a condition on the block (repeated names, unsupported items allowed): the characterisation of
    `C14_trait_items_ok_iff` read on the look-up table, i.e. on the last copy of every name. Side condition: the
    trait's own item list is clean. -/
theorem C14_trait_items_ok_iff_any (ts second : List ItemSig) (hts : cleanItems ts = true) :
    compareTraitItems ts second = .ok () ↔
      (∀ t ∈ ts, t.hasDefault = false → ∃ s ∈ itemMap second, s.kind = t.kind ∧ s.ident = t.ident) ∧
      (∀ s ∈ itemMap second, ∃ t ∈ ts, t.kind = s.kind ∧ t.ident = s.ident) ∧
      (∀ t ∈ ts, ∀ s ∈ itemMap second, t.kind = .const → s.kind = .const → s.ident = t.ident → t.arity = s.arity) :=
  compareTraitItems_ok_iff_map ts second hts

/-- the same in inherent mode, for a clean FIRST block (side condition `cleanItems fs`; the other block may repeat names).
    Without the side condition: `C14_inherent_items_ok_iff_tables` (the first block is read through its table, too). -/
theorem C14_inherent_items_ok_iff_any (fs second : List ItemSig) (hf : cleanItems fs = true) :
    compareInherentItems fs second = .ok () ↔
      (∀ f ∈ fs, ∃ s ∈ itemMap second, s.kind = f.kind ∧ s.ident = f.ident) ∧
      (∀ s ∈ itemMap second, ∃ f ∈ fs, f.kind = s.kind ∧ f.ident = s.ident) ∧
      (∀ f ∈ fs, ∀ s ∈ itemMap second, f.kind = .const → s.kind = .const → s.ident = f.ident → f.arity = s.arity) :=
  compareInherentItems_ok_iff_map fs second hf

/-- omitting every copy of an item that has a trait default keeps the block accepted; no condition on the block -/
theorem C14_default_may_be_omitted_any (ts second : List ItemSig) (t : ItemSig) (hts : cleanItems ts = true)
    (hok : compareTraitItems ts second = .ok ()) (ht : t ∈ ts)
    (hd : t.hasDefault = true) : compareTraitItems ts (dropItem t.kind t.ident second) = .ok () :=
  compareTraitItems_default_omitted ts second t hts hok ht hd

/-! ## Inherent mode: the first block is a table, too (/repo 133a44b) -/

/-- the first block counts through its look-up table only (one entry per (kind, name): position of the first copy, value of
    the last). No side condition (an unsupported item is in the table iff it is in the block: both sides are
    "Not supported" then). -/
theorem C14_inherent_first_block_table (fs second : List ItemSig) :
    compareInherentItems fs second = compareInherentItems (itemMap fs) second :=
  compareInherentItems_first_table fs second

/-- building the table twice changes nothing -/
theorem C14_table_idempotent (xs : List ItemSig) : itemMap (itemMap xs) = itemMap xs := itemMap_idem xs

/-- an unsupported item in the first block: "Not supported", whatever the other block is -/
theorem C14_inherent_first_block_unsupported (fs second : List ItemSig)
    (h : fs.any (fun i => i.kind = .other) = true) : compareInherentItems fs second = .error .notSupported :=
  compareInherentItems_of_other h second

/-- acceptance in inherent mode with NO condition on either block (repeated names and unsupported items allowed on both
    sides): no unsupported item in the first block, and the characterisation of `C14_inherent_items_ok_iff` read on the two
    look-up tables, i.e. on the last copy of every name of either block -/
theorem C14_inherent_items_ok_iff_tables (fs second : List ItemSig) :
    compareInherentItems fs second = .ok () ↔
      fs.any (fun i => i.kind = .other) = false ∧
      (∀ f ∈ itemMap fs, ∃ s ∈ itemMap second, s.kind = f.kind ∧ s.ident = f.ident) ∧
      (∀ s ∈ itemMap second, ∃ f ∈ itemMap fs, f.kind = s.kind ∧ f.ident = s.ident) ∧
      (∀ f ∈ itemMap fs, ∀ s ∈ itemMap second, f.kind = .const → s.kind = .const → s.ident = f.ident →
        f.arity = s.arity) :=
  compareInherentItems_ok_iff_tables fs second

/-- `C14_inherent_missing` without the side condition on the first block: every copy of a name of the first block removed
    from the other block gives "Not found in one of the impls" -/
theorem C14_inherent_missing_any (fs second : List ItemSig) (f : ItemSig)
    (hok : compareInherentItems fs second = .ok ()) (hf : f ∈ fs) :
    compareInherentItems fs (dropItem f.kind f.ident second) = .error .notInOneImpl :=
  compareInherentItems_missing_any fs second f hok hf

/-- `C14_inherent_arity` without the side condition on the first block -/
theorem C14_inherent_arity_any (fs l1 l2 : List ItemSig) (s s' : ItemSig)
    (hcl : cleanItems (l1 ++ s :: l2) = true) (hok : compareInherentItems fs (l1 ++ s :: l2) = .ok ())
    (hsk : s.kind = .const) (hk : s'.kind = s.kind) (hi : s'.ident = s.ident) (ha : s'.arity ≠ s.arity) :
    compareInherentItems fs (l1 ++ s' :: l2) = .error .genericsMismatch :=
  compareInherentItems_arity_any fs l1 l2 s s' hcl hok hsk hk hi ha

/-! ## Non-vacuity -/

section Examples
private def cN (a : Nat) : ItemSig := ⟨.const, "N", a, false⟩
private def tA : ItemSig := ⟨.type, "A", 0, false⟩
private def fD : ItemSig := ⟨.fn, "f", 0, true⟩      -- has a default body
private def fX : ItemSig := ⟨.fn, "g", 0, false⟩

example : cleanItems [cN 0, tA, fD] = true ∧ cleanItems [tA, cN 0] = true ∧
    compareTraitItems [cN 0, tA, fD] [tA, cN 0] = .ok () ∧                       -- default omitted, other order
    compareTraitItems [cN 0, tA, fD] [fD, tA, cN 0] = .ok () ∧
    compareTraitItems [cN 0, tA, fD] [tA] = .error .missing ∧
    compareTraitItems [cN 0, tA, fD] [tA, fX, cN 0] = .error .notInTrait ∧
    compareTraitItems [cN 0, tA, fD] [tA, cN 1] = .error .noMatch ∧
    compareTraitItems [cN 0, tA, fD] [tA, cN 0, ⟨.other, "", 0, false⟩] = .error .notSupported := by decide

example : compareInherentItems [cN 0, tA] [tA, cN 0] = .ok () ∧
    compareInherentItems [cN 0, tA] [tA] = .error .notInOneImpl ∧
    compareInherentItems [cN 0, tA] [tA, fX, cN 0] = .error .notInOneImpl ∧
    compareInherentItems [cN 0, tA] [tA, cN 2] = .error .genericsMismatch := by decide

/-- `C14_missing_item` / `C14_default_may_be_omitted` are about `dropItem` -/
example : dropItem .const "N" [tA, cN 0] = [tA] ∧ dropItem .fn "f" [fD, tA, cN 0] = [tA, cN 0] := by decide

/-- a name given twice in a block is ONE entry of the look-up table (the real validator accepts
    `#[cfg(any())] type A = u8; #[cfg(not(any()))] type A = u16;`); the TRAIT's items are a slice: a name declared twice
    there is asked for twice and found once -/
example : cleanItems [tA, tA] = false ∧ compareTraitItems [tA] [tA, tA] = .ok () ∧ itemMap [tA, tA] = [tA] ∧
    compareTraitItems [tA, tA] [tA] = .error .missing ∧ compareTraitItems [tA, tA] [tA, tA] = .error .missing := by decide

/-- the clean-list hypothesis of the characterisation `C14_trait_items_ok_iff` is needed: with a repeated const the LAST
    copy's number of generic parameters counts (`IndexMap::insert` overwrites the value), the clause about the arities
    speaks about every copy -/
example : cleanItems [cN 1, cN 0] = false ∧ compareTraitItems [cN 0] [cN 1, cN 0] = .ok () ∧
    compareTraitItems [cN 0] [cN 0, cN 1] = .error .noMatch ∧
    ¬ (∀ t ∈ [cN 0], ∀ s ∈ [cN 1, cN 0], t.kind = .const → s.kind = .const → s.ident = t.ident → t.arity = s.arity) ∧
    itemMap [cN 1, tA, cN 0] = [cN 0, tA] := by decide

/-- header order: the second impl's header is checked before the first impl's items -/
example :
    let tr : T := .node "ItemTrait" [] [.node "L" [] [], .node "V" [] [], .node "None" [] [], .node "None" [] [],
      .node "None" [] [], .node "Ident" ["Kita"] [], .node "G" [] [], .node "None" [] [], .node "List" [] [],
      .node "List" [] [.node "TraitItem::Const" [] [.node "A" [] [], .node "Ident" ["N"] [], .node "G" [] [],
        .node "Ty" [] [], .node "None" [] []]]]
    let badItems : T := .node "ItemImpl" [] [.node "A" [] [], .node "None" [] [], .node "None" [] [], .node "G" [] [],
      .node "Some" [] [.node "Tuple" [] [.node "None" [] [], .node "Path" [] [.node "IgnL" [] [.node "None" [] []],
        .node "List" [] [.node "PathSegment" [] [.node "Ident" ["Kita"] [], .node "PathArguments::None" [] []]]]]],
      .node "S" [] [], .node "List" [] []]
    let inherent : T := .node "ItemImpl" [] [.node "A" [] [], .node "None" [] [], .node "None" [] [], .node "G" [] [],
      .node "None" [] [], .node "S" [] [], .node "List" [] []]
    traitItemsCheck tr badItems = .error .missing ∧
    validateTraitImpls tr [badItems] = .error .missing ∧
    validateTraitImpls tr [badItems, inherent] = .error .expectedTraitImpl ∧
    validateAll (some tr) [[], [badItems, inherent], [badItems]] = .error .expectedTraitImpl := by decide
/-- the duplicate-under-`cfg` block on real trees. Trait `trait Kita { fn f() -> u8; }`; block
    `impl Kita for S { #[cfg(any())] fn f() -> u8 { 0 } #[cfg(not(any()))] fn f() -> u8 { 1 } }` (validation sees the kind and
    the name of an item only, so both copies are the same `ItemSig`).
    Trait mode: ACCEPTED (no diagnostic), alone and next to a block with one `f`.
    Inherent mode (the same items in `impl S { … }`): since /repo 133a44b the FIRST block is a table as well, so a first
    block that names `f` twice is ACCEPTED against a block with one `f` and against a block that names `f` twice (before
    133a44b: "Not found in one of the impls" — `f` was asked for twice and found once); a LATER block that names `f` twice
    is accepted against a first block with one `f`; a family of one block is not compared. -/
example :
    let fnSig (x : String) : T := .node "Signature" [] [.node "None" [] [], .node "None" [] [], .node "None" [] [],
      .node "None" [] [], .node "Ident" [x] [], .node "G" [] [], .node "List" [] [], .node "None" [] [], .node "R" [] []]
    let tr : T := .node "ItemTrait" [] [.node "L" [] [], .node "V" [] [], .node "None" [] [], .node "None" [] [],
      .node "None" [] [], .node "Ident" ["Kita"] [], .node "G" [] [], .node "None" [] [], .node "List" [] [],
      .node "List" [] [.node "TraitItem::Fn" [] [.node "A" [] [], fnSig "f", .node "None" [] [], .node "Some" ["Semi"] []]]]
    let fnItem (cfg : String) : T := .node "ImplItem::Fn" [] [.node "Ign" [] [.node "List" [] [.node cfg [] []]],
      .node "Visibility::Inherited" [] [], .node "None" [] [], fnSig "f", .node "Block" [] []]
    let kitaRef : T := .node "Some" [] [.node "Tuple" [] [.node "None" [] [], .node "Path" [] [.node "IgnL" [] [.node "None" [] []],
        .node "List" [] [.node "PathSegment" [] [.node "Ident" ["Kita"] [], .node "PathArguments::None" [] []]]]]]
    let block (tref : T) (items : List T) : T := .node "ItemImpl" [] [.node "A" [] [], .node "None" [] [], .node "None" [] [],
      .node "G" [] [], tref, .node "S" [] [], .node "List" [] items]
    let dup := [fnItem "cfg(any())", fnItem "cfg(not(any()))"]
    let one := [fnItem "none"]
    implItemSigs (block kitaRef dup) = [⟨.fn, "f", 0, false⟩, ⟨.fn, "f", 0, false⟩] ∧
    traitItemsCheck tr (block kitaRef dup) = .ok () ∧
    validateTraitImpls tr [block kitaRef dup] = .ok () ∧
    validateTraitImpls tr [block kitaRef one, block kitaRef dup] = .ok () ∧
    validateAll (some tr) [[block kitaRef dup, block kitaRef dup]] = .ok () ∧
    validateInherentImpls [block (.node "None" [] []) dup] = .ok () ∧
    validateInherentImpls [block (.node "None" [] []) one, block (.node "None" [] []) dup] = .ok () ∧
    validateInherentImpls [block (.node "None" [] []) dup, block (.node "None" [] []) dup] = .ok () ∧
    validateInherentImpls [block (.node "None" [] []) dup, block (.node "None" [] []) one] = .ok () ∧
    validateInherentImpls [block (.node "None" [] []) dup, block (.node "None" [] []) one, block (.node "None" [] []) []]
      = .error .notInOneImpl := by
  decide

/-- the example of /repo 133a44b on real trees: first block `impl S { #[cfg(x)] fn name() {} #[cfg(not(x))] fn name() {} }`,
    second block `impl S { fn name() {} }`: accepted (`.ok ()`), item comparison and whole family; with the blocks the other
    way round as well; a second block without `name`, or with another function, is still rejected. -/
example :
    let fnSig (x : String) : T := .node "Signature" [] [.node "None" [] [], .node "None" [] [], .node "None" [] [],
      .node "None" [] [], .node "Ident" [x] [], .node "G" [] [], .node "List" [] [], .node "None" [] [], .node "R" [] []]
    let fnItem (cfg x : String) : T := .node "ImplItem::Fn" [] [.node "Ign" [] [.node "List" [] [.node cfg [] []]],
      .node "Visibility::Inherited" [] [], .node "None" [] [], fnSig x, .node "Block" [] []]
    let block (items : List T) : T := .node "ItemImpl" [] [.node "A" [] [], .node "None" [] [], .node "None" [] [],
      .node "G" [] [], .node "None" [] [], .node "S" [] [], .node "List" [] items]
    let first := block [fnItem "cfg(x)" "name", fnItem "cfg(not(x))" "name"]
    let second := block [fnItem "none" "name"]
    implItemSigs first = [⟨.fn, "name", 0, false⟩, ⟨.fn, "name", 0, false⟩] ∧
    implItemSigs second = [⟨.fn, "name", 0, false⟩] ∧
    compareInherentItems (implItemSigs first) (implItemSigs second) = .ok () ∧
    validateInherentImpls [first, second] = .ok () ∧
    validateInherentImpls [second, first] = .ok () ∧
    validateAll none [[first, second]] = .ok () ∧
    validateInherentImpls [first, block []] = .error .notInOneImpl ∧
    validateInherentImpls [first, block [fnItem "none" "name", fnItem "none" "other"]] = .error .notInOneImpl := by
  decide

example : insertItem [tA, cN 1, fD] (cN 0) = [tA, cN 0, fD] ∧ insertItem [tA, cN 1] fD = [tA, cN 1, fD] ∧
    [tA, cN 1, fD, tA, cN 0].foldl insertItem [] = [tA, cN 0, fD] := by decide

/-- the hypotheses of the `…_any` theorems on a block that repeats names -/
example : cleanItems [cN 0, tA, fD] = true ∧ compareTraitItems [cN 0, tA, fD] [tA, cN 1, fD, tA, cN 0] = .ok () ∧
    cleanItems [tA, cN 1, fD, tA, cN 0] = false ∧ itemMap [tA, cN 1, fD, tA, cN 0] = [tA, cN 0, fD] ∧
    dropItem .fn "f" [tA, cN 1, fD, tA, cN 0] = [tA, cN 1, tA, cN 0] ∧
    compareTraitItems [cN 0, tA, fD] [tA, cN 1, tA, cN 0] = .ok () ∧
    compareInherentItems [cN 0, tA] [tA, cN 1, tA, cN 0] = .ok () ∧
    compareInherentItems [cN 0, tA, tA] [tA, cN 0] = .ok () := by decide

/-- inherent mode, FIRST block repeats a name (/repo 133a44b): it counts through its table. The example of the commit
    message on item signatures (`#[cfg(x)] fn name` / `#[cfg(not(x))] fn name` against one `fn name`): accepted; the last
    copy's number of generic parameters counts; an unsupported item in the first block is "Not supported" even when a name
    before it is missing from the other block; the hypotheses of `C14_inherent_missing_any` / `C14_inherent_arity_any` /
    `C14_inherent_items_ok_iff_tables` on a first block that is not clean. -/
example :
    let fName : ItemSig := ⟨.fn, "name", 0, false⟩
    let oth : ItemSig := ⟨.other, "", 0, false⟩
    compareInherentItems [fName, fName] [fName] = .ok () ∧
    compareInherentItems [fName, fName] [fName, fName] = .ok () ∧
    compareInherentItems [fName, fName] [] = .error .notInOneImpl ∧
    cleanItems [cN 1, tA, cN 0] = false ∧ itemMap [cN 1, tA, cN 0] = [cN 0, tA] ∧
    compareInherentItems [cN 1, tA, cN 0] [tA, cN 0] = .ok () ∧
    compareInherentItems [cN 0, tA, cN 1] [tA, cN 0] = .error .genericsMismatch ∧
    compareInherentItems [cN 1, tA, cN 0] (dropItem .const "N" [tA, cN 0]) = .error .notInOneImpl ∧
    cleanItems ([tA] ++ cN 0 :: []) = true ∧
    compareInherentItems [cN 1, tA, cN 0] ([tA] ++ cN 2 :: []) = .error .genericsMismatch ∧
    compareInherentItems [tA, oth] [] = .error .notSupported ∧
    compareInherentItems [tA, oth] [tA, oth] = .error .notSupported ∧
    compareInherentItemsLoop [tA, oth] [] = .error .notInOneImpl ∧
    [cN 1, tA, cN 0].any (fun i => i.kind = .other) = false ∧
    compareInherentItems [cN 1, tA, cN 0] [tA, cN 0] = compareInherentItems (itemMap [cN 1, tA, cN 0]) [tA, cN 0] := by
  decide
end Examples

end DI
