/-
  C07 — deterministic expansion. Property theorems only.
  `Facts.lean` is regenerated from /repo/src on every run of the check, so the first two obligations are
  re-decided against the current source: introducing a hashed container or a read of ambient state breaks them.
-/
import DisjointImpls.Facts
import DisjointImpls.Det
namespace DI

/-- every map/set type the crate's source mentions iterates in insertion (or key) order -/
theorem C07_all_containers_ordered :
    (Facts.containerKinds.all (fun p => kindOf p.1 == .ordered)) = true := by decide

/-- the crate's source reads no ambient state (environment, clocks, threads, randomness, addresses, files, globals) -/
theorem C07_no_ambient_reads : Facts.ambientReads = [] := by decide

/-- the crate's source calls no API that returns a per-process-seeded hash container without naming its type
    (itertools' `into_group_map`/`counts`/grouping maps, `hash_map::`/`hash_set::` paths, address-derived orderings) -/
theorem C07_no_hidden_hashed_containers : Facts.hashedApiCalls = [] := by decide

/-- iterating an ordered container does not depend on the process' hasher seed -/
theorem C07_iteration_seed_independent {α : Type} (perm : Nat → List α → List α) (k : ContainerKind)
    (hk : k = .ordered) (s₁ s₂ : Nat) (xs : List α) : iterate perm k s₁ xs = iterate perm k s₂ xs := by
  subst hk; rfl

/-- hence any computation that only iterates ordered containers is a function of its inputs alone:
    two processes (seeds) produce the same result -/
theorem C07_expansion_is_function_of_tokens {α β : Type} (perm : Nat → List α → List α) (step : β → List α → β)
    (cs : List (ContainerKind × List α)) (h : ∀ c ∈ cs, c.1 = .ordered) (s₁ s₂ : Nat) (init : β) :
    runWith perm s₁ step cs init = runWith perm s₂ step cs init := by
  induction cs generalizing init with
  | nil => rfl
  | cons c rest ih =>
    obtain ⟨k, xs⟩ := c
    have hk : k = .ordered := h (k, xs) (by simp)
    subst hk
    simp only [runWith, iterate]
    exact ih (fun c hc => h c (by simp [hc])) _

/-- the hypothesis is needed: with a hashed container two seeds may disagree -/
theorem C07_hashed_counterexample :
    ∃ (perm : Nat → List Nat → List Nat) (s₁ s₂ : Nat) (xs : List Nat),
      iterate perm .hashed s₁ xs ≠ iterate perm .hashed s₂ xs :=
  ⟨fun s xs => if s = 0 then xs else xs.reverse, 0, 1, [1, 2], by decide⟩

/-- GENERALISATION (session 4): a container need not be ordered as long as every use of its iteration is insensitive to the
    order — the precise condition under which a `HashSet` used for membership tests, counting or an order-free fold leaves the
    expansion a function of the tokens.  Each iterated container is either ordered, or the consumer `step` gives the same
    result on every rearrangement of its contents (and the hasher only ever rearranges: `hperm`). -/
theorem C07_expansion_function_of_tokens_general {α β : Type} (perm : Nat → List α → List α)
    (hperm : ∀ s xs, (perm s xs).Perm xs) (step : β → List α → β)
    (cs : List (ContainerKind × List α))
    (h : ∀ c ∈ cs, c.1 = .ordered ∨ (∀ acc ys, ys.Perm c.2 → step acc ys = step acc c.2))
    (s₁ s₂ : Nat) (init : β) :
    runWith perm s₁ step cs init = runWith perm s₂ step cs init := by
  induction cs generalizing init with
  | nil => rfl
  | cons c rest ih =>
    obtain ⟨k, xs⟩ := c
    have hrest : ∀ c ∈ rest, c.1 = .ordered ∨ (∀ acc ys, ys.Perm c.2 → step acc ys = step acc c.2) :=
      fun c hc => h c (by simp [hc])
    have hstep : step init (iterate perm k s₁ xs) = step init (iterate perm k s₂ xs) := by
      cases h (k, xs) (by simp) with
      | inl hk => simp only at hk; subst hk; rfl
      | inr hins =>
        cases k with
        | ordered => rfl
        | hashed =>
          simp only [iterate]
          rw [hins init _ (hperm s₁ xs), hins init _ (hperm s₂ xs)]
    simp only [runWith]
    rw [hstep]
    exact ih hrest _

/-- the ordered-only theorem is the special case in which no container is hashed -/
theorem C07_expansion_is_function_of_tokens_of_general {α β : Type} (perm : Nat → List α → List α)
    (hperm : ∀ s xs, (perm s xs).Perm xs) (step : β → List α → β)
    (cs : List (ContainerKind × List α)) (h : ∀ c ∈ cs, c.1 = .ordered) (s₁ s₂ : Nat) (init : β) :
    runWith perm s₁ step cs init = runWith perm s₂ step cs init :=
  C07_expansion_function_of_tokens_general perm hperm step cs (fun c hc => Or.inl (h c hc)) s₁ s₂ init

/-- order-insensitive consumers alone suffice, whatever the container kinds (membership tests, `len`, commutative folds) -/
theorem C07_order_insensitive_uses_are_deterministic {α β : Type} (perm : Nat → List α → List α)
    (hperm : ∀ s xs, (perm s xs).Perm xs) (step : β → List α → β)
    (hstep : ∀ acc xs ys, xs.Perm ys → step acc xs = step acc ys)
    (cs : List (ContainerKind × List α)) (s₁ s₂ : Nat) (init : β) :
    runWith perm s₁ step cs init = runWith perm s₂ step cs init :=
  C07_expansion_function_of_tokens_general perm hperm step cs
    (fun c _ => Or.inr (fun acc ys hys => hstep acc ys c.2 hys)) s₁ s₂ init

/-- membership is such a consumer: a set consulted only through `contains` never leaks its iteration order -/
theorem C07_membership_is_order_insensitive (a : Nat) (xs ys : List Nat) (h : xs.Perm ys) :
    xs.contains a = ys.contains a := by
  simp only [List.contains_eq_mem, h.mem_iff]

/-- the disjunction is exact: a hasher that only rearranges (a genuine permutation) still changes the result of an
    order-SENSITIVE consumer of a hashed container — e.g. emitting one generated item per element -/
theorem C07_order_sensitive_consumer_counterexample :
    ∃ (perm : Nat → List Nat → List Nat), (∀ s xs, (perm s xs).Perm xs) ∧
      ∃ (s₁ s₂ : Nat) (xs : List Nat),
        runWith perm s₁ (fun acc ys => acc ++ ys) [(.hashed, xs)] [] ≠
        runWith perm s₂ (fun acc ys => acc ++ ys) [(.hashed, xs)] [] := by
  refine ⟨fun s xs => if s = 0 then xs else xs.reverse, ?_, 0, 1, [1, 2], by decide⟩
  intro s xs
  by_cases hs : s = 0
  · simp [hs]
  · simp only [hs, if_false]; exact List.reverse_perm xs

/-- non-vacuity of the general theorem: a run that iterates one ordered list (emitting it) and one hashed set (only asking
    for membership of `2`) meets its hypotheses, for the reversing hasher above -/
example :
    let step : List Nat → List Nat → List Nat := fun acc ys => if ys.contains 2 then acc ++ [2] else acc
    ∀ c ∈ [(ContainerKind.hashed, [1, 2, 3])],
      c.1 = .ordered ∨ (∀ acc ys, ys.Perm c.2 → step acc ys = step acc c.2) := by
  intro step c hc
  simp only [List.mem_singleton] at hc
  subst hc
  refine Or.inr (fun acc ys hys => ?_)
  simp only [step, C07_membership_is_order_insensitive 2 ys [1, 2, 3] hys]

end DI
