/-
  C07 — deterministic expansion. Property theorems only.
  `Facts.lean` is regenerated from /repo/src on every run of the check, so the first two obligations are
  re-decided against the current source: introducing a hashed container or a read of ambient state breaks them.
-/
import DisjointImpls.Facts
import DisjointImpls.Det
namespace DI

/-- every map/set type the crate's source mentions iterates in insertion (or key) order -/
theorem C07_all_containers_ordered :
    (Facts.containerKinds.all (fun p => kindOf p.1 == .ordered)) = true := by decide

/-- the crate's source reads no ambient state (environment, clocks, threads, randomness, addresses, files, globals) -/
theorem C07_no_ambient_reads : Facts.ambientReads = [] := by decide

/-- the crate's source calls no API that returns a per-process-seeded hash container without naming its type
    (itertools' `into_group_map`/`counts`/grouping maps, `hash_map::`/`hash_set::` paths, address-derived orderings) -/
theorem C07_no_hidden_hashed_containers : Facts.hashedApiCalls = [] := by decide

/-- iterating an ordered container does not depend on the process' hasher seed -/
theorem C07_iteration_seed_independent {α : Type} (perm : Nat → List α → List α) (k : ContainerKind)
    (hk : k = .ordered) (s₁ s₂ : Nat) (xs : List α) : iterate perm k s₁ xs = iterate perm k s₂ xs := by
  subst hk; rfl

/-- hence any computation that only iterates ordered containers is a function of its inputs alone:
    two processes (seeds) produce the same result -/
theorem C07_expansion_is_function_of_tokens {α β : Type} (perm : Nat → List α → List α) (step : β → List α → β)
    (cs : List (ContainerKind × List α)) (h : ∀ c ∈ cs, c.1 = .ordered) (s₁ s₂ : Nat) (init : β) :
    runWith perm s₁ step cs init = runWith perm s₂ step cs init := by
  induction cs generalizing init with
  | nil => rfl
  | cons c rest ih =>
    obtain ⟨k, xs⟩ := c
    have hk : k = .ordered := h (k, xs) (by simp)
    subst hk
    simp only [runWith, iterate]
    exact ih (fun c hc => h c (by simp [hc])) _

/-- the hypothesis is needed: with a hashed container two seeds may disagree -/
theorem C07_hashed_counterexample :
    ∃ (perm : Nat → List Nat → List Nat) (s₁ s₂ : Nat) (xs : List Nat),
      iterate perm .hashed s₁ xs ≠ iterate perm .hashed s₂ xs :=
  ⟨fun s xs => if s = 0 then xs else xs.reverse, 0, 1, [1, 2], by decide⟩

end DI
