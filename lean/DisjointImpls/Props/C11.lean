/-
  C11 — the grouping front end (`ImplGroups::parse`, model `Group.lean`): property theorems about an accepted
  grouping `parseGroups items = .ok groups`. Proofs are in `Lemmas/GroupLemmas.lean`.

  A group is `(id, abg, members)`: the family header, the dispatch keys with one row of bindings per member,
  and the member blocks. `parseEnv items` is the environment the search runs in (buckets by header and the
  generalisation pairs of `make_sets`).

  Part 1: what the candidate filter guarantees. Part 2: invariants of the backtracking search, proved once for
  any per-group property that `ABG.new` establishes and `intersection` preserves (`SearchInv`, `search_inv`).
-/
import DisjointImpls.Lemmas.GroupLemmas
namespace DI

/-! ## Part 1 — the candidate filter -/

/-- every family has at least one dispatch key -/
theorem C11_keys_nonempty (items : List T) (groups : Groups) (h : parseGroups items = .ok groups) :
    ∀ e ∈ groups, e.2.1.bounds ≠ [] := by
  intro e he
  obtain ⟨_, _, _, h1, _⟩ := parseGroups_group' h he (rowsAligned_inv _)
  exact h1

/-- the rows of a family are pairwise distinguishable: no member's row of payloads generalises another's -/
theorem C11_rows_distinguishable (items : List T) (groups : Groups) (h : parseGroups items = .ok groups) :
    ∀ e ∈ groups, e.2.1.isOverlapping = false ∧
      ∀ (i j : Nat) (a b : List (Option T)), i ≠ j → e.2.1.payloads[i]? = some a → e.2.1.payloads[j]? = some b →
        rowGeneralises a b = false := by
  intro e he
  obtain ⟨_, _, _, _, h2⟩ := parseGroups_group' h he (rowsAligned_inv _)
  exact ⟨h2, isOverlapping_false h2⟩

/-- every key that is kept has a binding in some member's row (`prune_non_assoc`) -/
theorem C11_every_key_has_a_binding (items : List T) (groups : Groups) (h : parseGroups items = .ok groups) :
    ∀ e ∈ groups, ∀ kr ∈ e.2.1.bounds, ∃ r ∈ kr.2, r ≠ [] := by
  intro e he kr hkr
  obtain ⟨e0, _, rfl, _, _⟩ := parseGroups_group' h he (rowsAligned_inv _)
  simp only [ABG.prune, List.mem_filter, List.any_eq_true, Bool.not_eq_true', List.isEmpty_eq_false_iff] at hkr
  exact hkr.2

/-! ## Part 2 — invariants of the search -/

/-- rows are aligned with members: every key of a family has exactly one row per member (row `i` belongs to
    member `i`) -/
theorem C11_rows_aligned (items : List T) (groups : Groups) (h : parseGroups items = .ok groups) :
    ∀ e ∈ groups, ∀ kr ∈ e.2.1.bounds, kr.2.length = e.2.2.length := by
  intro e he kr hkr
  obtain ⟨e0, h0, rfl, _, _⟩ := parseGroups_group' h he (rowsAligned_inv _)
  simp only [ABG.prune, List.mem_filter] at hkr
  exact h0 kr hkr.1

/-- every member's header is the family's header or one that `make_sets` recorded as generalised by it -/
theorem C11_members_generalised (items : List T) (groups : Groups) (h : parseGroups items = .ok groups) :
    ∀ e ∈ groups, ∀ b ∈ e.2.2,
      groupIdOf b.item = e.1 ∨ ∃ σ, (groupIdOf b.item, σ) ∈ (parseEnv items).subsets.get e.1 := by
  intro e he b hb
  obtain ⟨e0, h0, rfl, _, _⟩ :=
    parseGroups_group' h he (membersGeneralised_inv (parseEnv items) (mkBuckets_wf _))
  exact h0 b hb

/-- … hence the matcher answered yes: the member's header is an instance of the family's header
    (`C09_sound_wf` turns the answer into `erase (inst σ id) = erase (member header)`) -/
theorem C11_members_matched (items : List T) (groups : Groups) (h : parseGroups items = .ok groups) :
    ∀ e ∈ groups, ∀ b ∈ e.2.2, groupIdOf b.item = e.1 ∨ ∃ σ l, sup e.1 (groupIdOf b.item) = .yes σ l := by
  intro e he b hb
  rcases C11_members_generalised items groups h e he b hb with h1 | ⟨σ, hσ⟩
  · exact Or.inl h1
  · obtain ⟨_, l, hl⟩ := makeSets_subsets hσ
    exact Or.inr ⟨σ, l, hl⟩

/-- every member of every family is one of the input blocks (a block of some bucket) -/
theorem C11_members_from_buckets (items : List T) (groups : Groups) (h : parseGroups items = .ok groups) :
    ∀ e ∈ groups, ∀ b ∈ e.2.2, ∃ bk ∈ mkBuckets (items.map mkBlk), b ∈ bk.2 := by
  intro e he b hb
  obtain ⟨e0, h0, rfl, _, _⟩ := parseGroups_group' h he (membersFromBuckets_inv (parseEnv items))
  exact h0 b hb

/-- and sits in the bucket of its own header -/
theorem C11_buckets_by_header (items : List T) : ∀ bk ∈ mkBuckets (items.map mkBlk), ∀ b ∈ bk.2, groupIdOf b.item = bk.1 :=
  mkBuckets_wf _

/-- the general form: any per-group property established by `ABG.new` and preserved by `intersection` holds for
    every candidate the search returns from a root -/
theorem C11_search_invariant (env : Env) (GP : T × ABG × List Blk → Prop) (BP : T → Blk → Prop)
    (H : SearchInv env GP BP) (fuel : Nat) (r : T) (sup : Supersets) (cands : List Groups) (sup' : Supersets)
    (h : searchRec env fuel r (env.impls r) sup [] = .ok (cands, sup')) : ∀ g ∈ cands, ∀ e ∈ g, GP e :=
  search_root_inv H h

/-! ## Part 3 — partition -/

/-- executable form of "no header generalises another one": `make_sets` finds no pair -/
def noNesting (items : List T) : Bool := (msPairs ((mkBuckets (items.map mkBlk)).map (·.1))).isEmpty

theorem noNesting_spec (items : List T) (h : noNesting items = true) : ∀ id, (parseEnv items).subsets.get id = [] := by
  intro id
  have hp : msPairs ((mkBuckets (items.map mkBlk)).map (·.1)) = [] := by simpa [noNesting] using h
  simp only [parseEnv, makeSets_eq, hp, List.filter_nil, List.map_nil]
  unfold Subsets.get
  split
  · next e hf =>
    have := List.mem_of_find?_eq_some hf
    obtain ⟨x, _, rfl⟩ := List.mem_map.1 this
    rfl
  · rfl

/-- every block is placed exactly once — proved for inputs without nested headers (no header generalises another
    one, so `unlock_subset_impl_groups` has nothing to unlock and every bucket is a root):
    the members of all families are a rearrangement of the blocks of all buckets.

    The full statement (same conclusion without `noNesting`) is open: it needs the counter discipline of
    `searchUnlock` — that across the backtracking alternatives every header is unlocked exactly once, when its
    superset counter reaches 0. What is proved towards it: `searchRec_placed` (the blocks handed to one call are
    placed exactly once in every candidate, with distinct family headers) does not use `noNesting` except in the
    final `searchUnlock` step. -/
theorem C11_partition_partial (items : List T) (groups : Groups) (h : parseGroups items = .ok groups)
    (hn : noNesting items = true) :
    (groups.flatMap (fun e => e.2.2)).Perm ((mkBuckets (items.map mkBlk)).flatMap (fun bk => bk.2)) :=
  parseGroups_partition_partial h (noNesting_spec items hn)

/-- the buckets hold the input blocks: for pairwise different block texts, every input block is in the bucket of
    its header and nothing else is -/
theorem C11_buckets_hold_blocks (items : List T) (hnd : ((items.map mkBlk).map (·.item)).Nodup) :
    ∀ bk ∈ mkBuckets (items.map mkBlk), bk.2 = (items.map mkBlk).filter (fun b => groupIdOf b.item == bk.1) :=
  (mkBuckets_char _ hnd).1

/-! ## Non-vacuity: the README example is accepted -/

namespace Ex11
def leaf (s : String) : T := .node s [] []
def attrs : T := .node "Ign" [] [.node "List" [] []]
def seg (x : String) : T := .node "PathSegment" [] [.node "Ident" [x] [], leaf "PathArguments::None"]
def path (segs : List T) : T := .node "Path" [] [.node "IgnL" [] [leaf "None"], .node "List" [] segs]
def tyPath (segs : List T) : T := .node "Type::Path" [] [leaf "None", path segs]
def tyParam (x : String) (bounds : List T) : T :=
  .node "GenericParam::Type" [] [.node "TypeParam" [] [attrs, .node "Ident" [x] [], leaf "None",
    .node "List" [] bounds, leaf "None", leaf "None"]]
def traitBound (p : T) : T :=
  .node "TypeParamBound::Trait" [] [.node "TraitBound" [] [leaf "None", leaf "TraitBoundModifier::None", leaf "None", p]]
/-- `Dispatch<Group = g>` -/
def dispatch (g : String) : T :=
  path [.node "PathSegment" [] [.node "Ident" ["Dispatch"] [], .node "PathArguments::AngleBracketed" [] [.node "Ign" [] [leaf "None"],
    .node "List" [] [.node "GenericArgument::AssocType" [] [.node "AssocType" [] [.node "Ident" ["Group"] [], leaf "None", tyPath [seg g]]]]]]]
def implOf (params : List T) (self : T) : T :=
  .node "ItemImpl" [] [attrs, leaf "None", leaf "None",
    .node "Generics" [] [leaf "Some", .node "List" [] params, leaf "Some", leaf "None"],
    .node "Some" [] [.node "Tuple" [] [leaf "None", path [seg "Kita"]]], self, .node "List" [] []]
/-- `impl<T: Dispatch<Group = g>> Kita for T {}` -/
def blockFor (g : String) : T := implOf [tyParam "T" [traitBound (dispatch g)]] (tyPath [seg "T"])
end Ex11

theorem ParseResult.ok_of_check {r : ParseResult} {f : Groups → Bool}
    (h : (match r with | .ok gs => f gs | _ => false) = true) : ∃ gs, r = .ok gs ∧ f gs = true := by
  cases r with
  | ok gs => exact ⟨gs, rfl, h⟩
  | unableToForm _ => cases h
  | panic _ => cases h

set_option maxRecDepth 1000000 in
/-- `impl<T: Dispatch<Group = GroupA>> Kita for T` and `… GroupB …`: accepted, one family with both blocks, one key,
    two rows — so the hypotheses of the theorems above are satisfiable -/
theorem C11_readme_example_accepted :
    ∃ gs, parseGroups [Ex11.blockFor "GroupA", Ex11.blockFor "GroupB"] = .ok gs ∧
      (gs.map (fun (e : T × ABG × List Blk) => (e.2.2.length, e.2.1.bounds.length, e.2.1.payloads.length)) == [(2, 1, 2)]) = true :=
  ParseResult.ok_of_check (f := fun gs => gs.map (fun (e : T × ABG × List Blk) =>
    (e.2.2.length, e.2.1.bounds.length, e.2.1.payloads.length)) == [(2, 1, 2)]) (by with_unfolding_all decide)

set_option maxRecDepth 1000000 in
/-- the README example has no nested headers, so `C11_partition_partial` applies to it -/
example : noNesting [Ex11.blockFor "GroupA", Ex11.blockFor "GroupB"] = true := by with_unfolding_all decide

end DI
