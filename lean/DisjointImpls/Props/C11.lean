/-
  C11 — the grouping front end (`ImplGroups::parse`, model `Group.lean`): property theorems about an accepted
  grouping `parseGroups items = .ok groups`. Proofs are in `Lemmas/GroupLemmas.lean`.

  A group is `(id, abg, members)`: the family header, the dispatch keys with one row of bindings per member,
  and the member blocks. `parseEnv items` is the environment the search runs in (buckets by header and the
  generalisation pairs of `make_sets`).

  Part 1: what the candidate filter guarantees. Part 2: invariants of the backtracking search, proved once for
  any per-group property that `ABG.new` establishes and `intersection` preserves (`SearchInv`, `search_inv`).
-/
import DisjointImpls.Lemmas.GroupLemmas
import DisjointImpls.Lemmas.RowsOwn
import DisjointImpls.Lemmas.EndToEndNested
import DisjointImpls.Lemmas.Acyclic
namespace DI

/-! ## Part 1 — the candidate filter -/

/-- every family has at least one dispatch key -/
theorem C11_keys_nonempty (items : List T) (groups : Groups) (h : parseGroups items = .ok groups) :
    ∀ e ∈ groups, e.2.1.bounds ≠ [] := by
  intro e he
  obtain ⟨_, _, _, h1, _⟩ := parseGroups_group' h he (rowsAligned_inv _)
  exact h1

/-- the rows of a family are pairwise distinguishable: no member's row of payloads generalises another's -/
theorem C11_rows_distinguishable (items : List T) (groups : Groups) (h : parseGroups items = .ok groups) :
    ∀ e ∈ groups, e.2.1.isOverlapping = false ∧
      ∀ (i j : Nat) (a b : List (Option T)), i ≠ j → e.2.1.payloads[i]? = some a → e.2.1.payloads[j]? = some b →
        rowGeneralises a b = false := by
  intro e he
  obtain ⟨_, _, _, _, h2⟩ := parseGroups_group' h he (rowsAligned_inv _)
  exact ⟨h2, isOverlapping_false h2⟩

/-- every key that is kept has a binding in some member's row (`prune_non_assoc`) -/
theorem C11_every_key_has_a_binding (items : List T) (groups : Groups) (h : parseGroups items = .ok groups) :
    ∀ e ∈ groups, ∀ kr ∈ e.2.1.bounds, ∃ r ∈ kr.2, r ≠ [] := by
  intro e he kr hkr
  obtain ⟨e0, _, rfl, _, _⟩ := parseGroups_group' h he (rowsAligned_inv _)
  simp only [ABG.prune, List.mem_filter, List.any_eq_true, Bool.not_eq_true', List.isEmpty_eq_false_iff] at hkr
  exact hkr.2

/-! ## Part 2 — invariants of the search -/

/-- rows are aligned with members: every key of a family has exactly one row per member (row `i` belongs to
    member `i`) -/
theorem C11_rows_aligned (items : List T) (groups : Groups) (h : parseGroups items = .ok groups) :
    ∀ e ∈ groups, ∀ kr ∈ e.2.1.bounds, kr.2.length = e.2.2.length := by
  intro e he kr hkr
  obtain ⟨e0, h0, rfl, _, _⟩ := parseGroups_group' h he (rowsAligned_inv _)
  simp only [ABG.prune, List.mem_filter] at hkr
  exact h0 kr hkr.1

/-- every member's header is the family's header or one that `make_sets` recorded as generalised by it -/
theorem C11_members_generalised (items : List T) (groups : Groups) (h : parseGroups items = .ok groups) :
    ∀ e ∈ groups, ∀ b ∈ e.2.2,
      groupIdOf b.item = e.1 ∨ ∃ σ, (groupIdOf b.item, σ) ∈ (parseEnv items).subsets.get e.1 := by
  intro e he b hb
  obtain ⟨e0, h0, rfl, _, _⟩ :=
    parseGroups_group' h he (membersGeneralised_inv (parseEnv items) (mkBuckets_wf _))
  exact h0 b hb

/-- … hence the matcher answered yes: the member's header is an instance of the family's header
    (`C09_sound_wf` turns the answer into `erase (inst σ id) = erase (member header)`) -/
theorem C11_members_matched (items : List T) (groups : Groups) (h : parseGroups items = .ok groups) :
    ∀ e ∈ groups, ∀ b ∈ e.2.2, groupIdOf b.item = e.1 ∨ ∃ σ l, sup e.1 (groupIdOf b.item) = .yes σ l := by
  intro e he b hb
  rcases C11_members_generalised items groups h e he b hb with h1 | ⟨σ, hσ⟩
  · exact Or.inl h1
  · obtain ⟨_, l, hl⟩ := makeSets_subsets hσ
    exact Or.inr ⟨σ, l, hl⟩

/-- every member of every family is one of the input blocks (a block of some bucket) -/
theorem C11_members_from_buckets (items : List T) (groups : Groups) (h : parseGroups items = .ok groups) :
    ∀ e ∈ groups, ∀ b ∈ e.2.2, ∃ bk ∈ mkBuckets (items.map mkBlk), b ∈ bk.2 := by
  intro e he b hb
  obtain ⟨e0, h0, rfl, _, _⟩ := parseGroups_group' h he (membersFromBuckets_inv (parseEnv items))
  exact h0 b hb

/-- and sits in the bucket of its own header -/
theorem C11_buckets_by_header (items : List T) : ∀ bk ∈ mkBuckets (items.map mkBlk), ∀ b ∈ bk.2, groupIdOf b.item = bk.1 :=
  mkBuckets_wf _

/-- the general form: any per-group property established by `ABG.new` and preserved by `intersection` holds for
    every candidate the search returns from a root -/
theorem C11_search_invariant (env : Env) (GP : T × ABG × List Blk → Prop) (BP : T → Blk → Prop)
    (H : SearchInv env GP BP) (fuel : Nat) (r : T) (sup : Supersets) (cands : List Groups) (sup' : Supersets)
    (h : searchRec env fuel r (env.impls r) sup [] = .ok (cands, sup')) : ∀ g ∈ cands, ∀ e ∈ g, GP e :=
  search_root_inv H h

/-! ## Part 3 — partition -/

/-- executable form of "no header generalises another one": `make_sets` finds no pair -/
def noNesting (items : List T) : Bool := (msPairs ((mkBuckets (items.map mkBlk)).map (·.1))).isEmpty

theorem noNesting_spec (items : List T) (h : noNesting items = true) : ∀ id, (parseEnv items).subsets.get id = [] := by
  intro id
  have hp : msPairs ((mkBuckets (items.map mkBlk)).map (·.1)) = [] := by simpa [noNesting] using h
  simp only [parseEnv, makeSets_eq, hp, List.filter_nil, List.map_nil]
  unfold Subsets.get
  split
  · next e hf =>
    have := List.mem_of_find?_eq_some hf
    obtain ⟨x, _, rfl⟩ := List.mem_map.1 this
    rfl
  · rfl

/-- every block is placed exactly once — proved for inputs without nested headers (no header generalises another
    one, so `unlock_subset_impl_groups` has nothing to unlock and every bucket is a root):
    the members of all families are a rearrangement of the blocks of all buckets.

    The full statement (same conclusion without `noNesting`) is open: it needs the counter discipline of
    `searchUnlock` — that across the backtracking alternatives every header is unlocked exactly once, when its
    superset counter reaches 0. What is proved towards it: `searchRec_placed` (the blocks handed to one call are
    placed exactly once in every candidate, with distinct family headers) does not use `noNesting` except in the
    final `searchUnlock` step. -/
theorem C11_partition_partial (items : List T) (groups : Groups) (h : parseGroups items = .ok groups)
    (hn : noNesting items = true) :
    (groups.flatMap (fun e => e.2.2)).Perm ((mkBuckets (items.map mkBlk)).flatMap (fun bk => bk.2)) :=
  parseGroups_partition_partial h (noNesting_spec items hn)

/-- the buckets hold the input blocks: for pairwise different block texts, every input block is in the bucket of
    its header and nothing else is -/
theorem C11_buckets_hold_blocks (items : List T) (hnd : ((items.map mkBlk).map (·.item)).Nodup) :
    ∀ bk ∈ mkBuckets (items.map mkBlk), bk.2 = (items.map mkBlk).filter (fun b => groupIdOf b.item == bk.1) :=
  (mkBuckets_char _ hnd).1

/-! ### Trees for the closed examples -/

namespace Ex11
def leaf (s : String) : T := .node s [] []
def attrs : T := .node "Ign" [] [.node "List" [] []]
def seg (x : String) : T := .node "PathSegment" [] [.node "Ident" [x] [], leaf "PathArguments::None"]
def path (segs : List T) : T := .node "Path" [] [.node "IgnL" [] [leaf "None"], .node "List" [] segs]
def tyPath (segs : List T) : T := .node "Type::Path" [] [leaf "None", path segs]
def tyParam (x : String) (bounds : List T) : T :=
  .node "GenericParam::Type" [] [.node "TypeParam" [] [attrs, .node "Ident" [x] [], leaf "None",
    .node "List" [] bounds, leaf "None", leaf "None"]]
def traitBound (p : T) : T :=
  .node "TypeParamBound::Trait" [] [.node "TraitBound" [] [leaf "None", leaf "TraitBoundModifier::None", leaf "None", p]]
/-- `Dispatch<Group = g>` -/
def dispatch (g : String) : T :=
  path [.node "PathSegment" [] [.node "Ident" ["Dispatch"] [], .node "PathArguments::AngleBracketed" [] [.node "Ign" [] [leaf "None"],
    .node "List" [] [.node "GenericArgument::AssocType" [] [.node "AssocType" [] [.node "Ident" ["Group"] [], leaf "None", tyPath [seg g]]]]]]]
def implOf (params : List T) (self : T) : T :=
  .node "ItemImpl" [] [attrs, leaf "None", leaf "None",
    .node "Generics" [] [leaf "Some", .node "List" [] params, leaf "Some", leaf "None"],
    .node "Some" [] [.node "Tuple" [] [leaf "None", path [seg "Kita"]]], self, .node "List" [] []]
/-- `impl<T: Dispatch<Group = g>> Kita for T {}` -/
def blockFor (g : String) : T := implOf [tyParam "T" [traitBound (dispatch g)]] (tyPath [seg "T"])
end Ex11

theorem ParseResult.ok_of_check {r : ParseResult} {f : Groups → Bool}
    (h : (match r with | .ok gs => f gs | _ => false) = true) : ∃ gs, r = .ok gs ∧ f gs = true := by
  cases r with
  | ok gs => exact ⟨gs, rfl, h⟩
  | unableToForm _ => cases h
  | panic _ => cases h

/-! ## Part 4 — partition with nested headers: reduced to the counters -/

/-- every block of every header the search processes is placed exactly once, in every accepted grouping:
    the members are a rearrangement of the blocks of the processed headers, `parseTrace items` — a function of
    the superset counters alone (`traceRec` / `traceUnlock` / `traceGo` mirror the search but only follow the
    counters). In particular the counters returned by all backtracking alternatives agree (`search_trace`), so
    taking those of the last successful alternative is harmless. -/
theorem C11_members_are_trace_blocks (items : List T) (groups : Groups) (h : parseGroups items = .ok groups) :
    ∃ tr, parseTrace items = some tr ∧
      (groups.flatMap (fun e => e.2.2)).Perm (tr.flatMap (parseEnv items).impls) :=
  parseGroups_trace h

/-- partition for inputs with nested headers, under the executable condition `traceCovers items`: the counters
    unlock every header exactly once (`parseTrace items` is a rearrangement of the bucket headers) -/
theorem C11_partition_of_trace (items : List T) (groups : Groups) (h : parseGroups items = .ok groups)
    (hc : traceCovers items = true) :
    (groups.flatMap (fun e => e.2.2)).Perm ((mkBuckets (items.map mkBlk)).flatMap (fun bk => bk.2)) :=
  parseGroups_partition_of_trace h hc

namespace Ex11
/-- `impl<T: Dispatch<Group = g>> Kita for self {}` -/
def blockSelf (g : String) (self : T) : T := implOf [tyParam "T" [traitBound (dispatch g)]] self
def paren (t : T) : T := .node "Type::Paren" [] [t]
/-- `Vec<x>` -/
def vecOf (x : T) : T := tyPath [.node "PathSegment" [] [.node "Ident" ["Vec"] [],
  .node "PathArguments::AngleBracketed" [] [.node "Ign" [] [leaf "None"], .node "List" [] [.node "GenericArgument::Type" [] [x]]]]]
def tT : T := tyPath [seg "T"]
end Ex11

section Defect
open Ex11
set_option maxRecDepth 1000000

/-- regression witness of a repaired defect (/repo commit 3e16a6b "fix: impl group ids that generalise each other no
    longer wait on each other"): two headers that generalise each other — they differ only by parentheses — used to
    be given a non-zero superset counter each, neither was a root and the accepted grouping was EMPTY. Now the earlier
    one is the root, both blocks are placed in one family and the counters cover every header.
    `impl<T: Dispatch<Group = GroupA>> Kita for (T) {}`  +  `impl<T: Dispatch<Group = GroupB>> Kita for T {}` -/
theorem C11_partition_mutual_headers_pair :
    ∃ gs, parseGroups [blockSelf "GroupA" (paren tT), blockSelf "GroupB" tT] = .ok gs ∧
      (gs.map (fun (e : T × ABG × List Blk) => e.2.2.length) == [2] &&
       traceCovers [blockSelf "GroupA" (paren tT), blockSelf "GroupB" tT]) = true :=
  ParseResult.ok_of_check (f := fun gs => gs.map (fun (e : T × ABG × List Blk) => e.2.2.length) == [2] &&
    traceCovers [blockSelf "GroupA" (paren tT), blockSelf "GroupB" tT]) (by with_unfolding_all decide)

/-- regression witness, former partial loss: below a common generaliser the two mutually generalising headers
    never reached counter 0 and two of three blocks were dropped; now all three are placed in one family.
    `… Kita for T {}`  +  `… Kita for Vec<T> {}`  +  `… Kita for (Vec<T>) {}` (three different `Group`s) -/
theorem C11_partition_mutual_headers_nested :
    ∃ gs, parseGroups [blockSelf "GroupA" tT, blockSelf "GroupB" (vecOf tT), blockSelf "GroupC" (paren (vecOf tT))] = .ok gs ∧
      (gs.map (fun (e : T × ABG × List Blk) => e.2.2.length) == [3] &&
       traceCovers [blockSelf "GroupA" tT, blockSelf "GroupB" (vecOf tT), blockSelf "GroupC" (paren (vecOf tT))]) = true :=
  ParseResult.ok_of_check (f := fun gs => gs.map (fun (e : T × ABG × List Blk) => e.2.2.length) == [3] &&
    traceCovers [blockSelf "GroupA" tT, blockSelf "GroupB" (vecOf tT), blockSelf "GroupC" (paren (vecOf tT))])
    (by with_unfolding_all decide)

/-- `traceCovers` holds on nested inputs without mutual generalisation: a chain `T ⊐ Vec<T>`, accepted with both
    blocks placed -/
example : traceCovers [blockSelf "GroupA" tT, blockSelf "GroupB" (vecOf tT)] = true ∧
    noNesting [blockSelf "GroupA" tT, blockSelf "GroupB" (vecOf tT)] = false := by with_unfolding_all decide
end Defect

/-! ## Part 4b — partition for nested headers, under executable acyclicity (Kahn's argument) -/

/-- if the generalisation relation recorded by `make_sets` between the bucket headers is acyclic (`acyclicB`:
    peeling off the headers without a remaining recorded generaliser `|headers|` times leaves nothing), the
    counters unlock every header exactly once -/
theorem C11_traceCovers_of_acyclic (items : List T) (groups : Groups) (h : parseGroups items = .ok groups)
    (ha : acyclicB items = true) : traceCovers items = true := by
  obtain ⟨tr, ht, _⟩ := parseGroups_trace h
  exact traceCovers_of_acyclic items tr ht ha

/-- the full partition statement for inputs with nested headers (chains, diamonds, …): every block is placed
    exactly once in every accepted grouping, provided the recorded header relation is acyclic -/
theorem C11_partition_acyclic (items : List T) (groups : Groups) (h : parseGroups items = .ok groups)
    (ha : acyclicB items = true) :
    (groups.flatMap (fun e => e.2.2)).Perm ((mkBuckets (items.map mkBlk)).flatMap (fun bk => bk.2)) :=
  parseGroups_partition_acyclic h ha

namespace Ex11
/-- `impl<T: Dispatch<Group = g>, U> Kita for self {}` -/
def blockSelf2 (g : String) (self : T) : T := implOf [tyParam "T" [traitBound (dispatch g)], tyParam "U" []] self
def tU : T := tyPath [seg "U"]
def tup (xs : List T) : T := .node "Type::Tuple" [] [.node "List" [] xs]
end Ex11

section Acyclic
open Ex11
set_option maxRecDepth 1000000

/-- `acyclicB` holds on: a chain `T ⊐ Vec<T> ⊐ Vec<Vec<T>>`; the diamond
    `(T,U) ⊐ (Vec<T>,U), (T,Vec<U>) ⊐ (Vec<T>,Vec<U>)` in both input orders; a V-shape `(Vec<T>,U), (T,Vec<U>) ⊐
    (Vec<T>,Vec<U>)` with two roots; and the two mutual-header inputs of the repaired defect -/
theorem C11_acyclic_examples :
    acyclicB [blockSelf "GroupA" tT, blockSelf "GroupB" (vecOf tT), blockSelf "GroupC" (vecOf (vecOf tT))] = true ∧
    acyclicB [blockSelf2 "GroupA" (tup [tT, tU]), blockSelf2 "GroupB" (tup [vecOf tT, tU]),
      blockSelf2 "GroupC" (tup [tT, vecOf tU]), blockSelf2 "GroupD" (tup [vecOf tT, vecOf tU])] = true ∧
    acyclicB [blockSelf2 "GroupD" (tup [vecOf tT, vecOf tU]), blockSelf2 "GroupC" (tup [tT, vecOf tU]),
      blockSelf2 "GroupB" (tup [vecOf tT, tU]), blockSelf2 "GroupA" (tup [tT, tU])] = true ∧
    acyclicB [blockSelf2 "GroupB" (tup [vecOf tT, tU]), blockSelf2 "GroupC" (tup [tT, vecOf tU]),
      blockSelf2 "GroupD" (tup [vecOf tT, vecOf tU])] = true ∧
    acyclicB [blockSelf "GroupA" (paren tT), blockSelf "GroupB" tT] = true ∧
    acyclicB [blockSelf "GroupA" tT, blockSelf "GroupB" (vecOf tT), blockSelf "GroupC" (paren (vecOf tT))] = true := by
  with_unfolding_all decide

/-- the diamond is accepted, and by `C11_partition_acyclic` all four blocks are placed exactly once -/
example :
    let items := [blockSelf2 "GroupA" (tup [tT, tU]), blockSelf2 "GroupB" (tup [vecOf tT, tU]),
      blockSelf2 "GroupC" (tup [tT, vecOf tU]), blockSelf2 "GroupD" (tup [vecOf tT, vecOf tU])]
    ∃ gs, parseGroups items = .ok gs ∧
      (gs.flatMap (fun e => e.2.2)).Perm ((mkBuckets (items.map mkBlk)).flatMap (fun bk => bk.2)) := by
  intro items
  obtain ⟨gs, hgs, _⟩ := ParseResult.ok_of_check (r := parseGroups items) (f := fun _ => true)
    (by with_unfolding_all decide)
  exact ⟨gs, hgs, C11_partition_acyclic items gs hgs C11_acyclic_examples.2.1⟩
end Acyclic

/-! ## Part 5 — families with unrelated headers are independent -/

/-- without nested headers the grouping is computed bucket by bucket by the plain recursion `flatSearch`
    (no counters, no unlocking): `parseGroups` is `goFlat` over the buckets -/
theorem C11_flat (items : List T) (hn : noNesting items = true) :
    parseGroups items = goFlat (mkBuckets (items.map mkBlk)) [] :=
  parseGroups_flat items (noNesting_spec items hn)

/-- two lists of blocks with disjoint sets of headers, no header generalising another one: the grouping of the
    concatenation is the concatenation of the groupings (and it fails exactly when the first failing part fails) -/
theorem C11_independent (items1 items2 : List T)
    (hdisj : ∀ b1 ∈ items1.map mkBlk, ∀ b2 ∈ items2.map mkBlk, groupIdOf b1.item ≠ groupIdOf b2.item)
    (hn : noNesting (items1 ++ items2) = true) :
    parseGroups (items1 ++ items2) =
      (match parseGroups items1 with
       | .ok g1 => (parseGroups items2).prepend g1
       | r => r) :=
  parseGroups_independent items1 items2 hdisj (by simpa [noNesting] using hn)

/-! ## Non-vacuity: the README example is accepted -/


set_option maxRecDepth 1000000 in
/-- `impl<T: Dispatch<Group = GroupA>> Kita for T` and `… GroupB …`: accepted, one family with both blocks, one key,
    two rows — so the hypotheses of the theorems above are satisfiable -/
theorem C11_readme_example_accepted :
    ∃ gs, parseGroups [Ex11.blockFor "GroupA", Ex11.blockFor "GroupB"] = .ok gs ∧
      (gs.map (fun (e : T × ABG × List Blk) => (e.2.2.length, e.2.1.bounds.length, e.2.1.payloads.length)) == [(2, 1, 2)]) = true :=
  ParseResult.ok_of_check (f := fun gs => gs.map (fun (e : T × ABG × List Blk) =>
    (e.2.2.length, e.2.1.bounds.length, e.2.1.payloads.length)) == [(2, 1, 2)]) (by with_unfolding_all decide)

set_option maxRecDepth 1000000 in
/-- the README example has no nested headers, so `C11_partition_partial` applies to it -/
example : noNesting [Ex11.blockFor "GroupA", Ex11.blockFor "GroupB"] = true := by with_unfolding_all decide

/-! ## Part 6 — rows hold each member's own bindings (`Lemmas/RowsOwn.lean`)

  Vocabulary. `otherFold b` is the per-key fold of block `b`'s trait bounds (key ↦ row of bindings) that `intersection`
  computes; `ABG.new` computes the same fold for the founding member (`C11_first_member_fold`).
  `memberSubst env gid hdr` is the substitution with which `searchRec` lets a block with header `hdr` join the family
  `gid` (`C11_memberSubst_spec`). `reexpr env gid i b k'` lists the re-expressions of member `i`'s own key `k'` over
  the family's parameters: `[k']` for the founding member `i = 0`, `substituteBound σ k'` with `σ = memberSubst …` for
  a later one (`C11_reexpr_first`, `C11_reexpr_later`). `sameKey k1 k2` (executable): same bounded type and same
  dispatch key `keyOf` (C12) — the equivalence relation generated by the IndexMap look-up `keyEq`; it IS `keyEq`
  whenever the trait path has a dispatch key at all (`C11_sameKey_keyEq`). All theorems hold for every accepted input,
  no side conditions. -/

/-- `ABG.new` (founding member) stores, key by key, exactly the fold `otherFold` that `intersection` computes for a
    joining member, as one-row entries -/
theorem C11_first_member_fold (b : Blk) : (ABG.new b).bounds = (otherFold b).map (fun e => (e.1, [e.2])) :=
  new_eq_otherFold b

/-- which substitution `memberSubst` is: the first entry `make_sets` recorded for the pair (family header, member
    header), or — no entry, same header — the answer of the matcher on the header against itself -/
theorem C11_memberSubst_spec (env : Env) (gid hdr : T) (σ : Subst) (h : memberSubst env gid hdr = some σ) :
    (∃ e, (env.subsets.get gid).find? (fun e => e.1 == hdr) = some e ∧ e.2 = σ) ∨
    ((env.subsets.get gid).find? (fun e => e.1 == hdr) = none ∧ gid = hdr ∧ ∃ l, sup gid gid = .yes σ l) := by
  unfold memberSubst at h
  split at h
  · next e he => cases h; exact Or.inl ⟨e, he, rfl⟩
  · next he =>
    split at h
    · next hc =>
      have hc' := eq_of_beq hc
      subst hc'
      split at h
      · next σ' l hs => cases h; exact Or.inr ⟨he, rfl, l, hs⟩
      · cases h
    · cases h

theorem C11_reexpr_first (env : Env) (gid : T) (b : Blk) (k' : BKey) : reexpr env gid 0 b k' = [k'] := rfl

theorem C11_reexpr_later (env : Env) (gid : T) (i : Nat) (b : Blk) (k' : BKey) (σ : Subst) (hi : i ≠ 0)
    (h : memberSubst env gid (groupIdOf b.item) = some σ) :
    reexpr env gid i b k' = substituteBound σ k'.1 k'.2 := by
  simp [reexpr, hi, h]

/-- for the founding member the two descriptions agree whenever the header matches itself with identity bindings
    (`selfIdentity`, the usual case): re-expressing under the self-match substitution returns the key unchanged -/
theorem C11_reexpr_first_selfIdentity (env : Env) (gid : T) (b : Blk) (k' : BKey) (σ : Subst) (l : Bool)
    (hs : sup gid gid = .yes σ l) (hid : selfIdentity gid = true) :
    reexpr env gid 0 b k' = substituteBound σ k'.1 k'.2 := by
  have hσ : allIdentity σ = true := by
    unfold selfIdentity at hid; rw [hs] at hid; exact hid
  rw [substituteBound_identity σ hσ]; rfl

/-- `sameKey` is an equivalence relation, contains `keyEq`, and equals `keyEq` on keys whose trait path has a
    dispatch key (in particular on `wfPath` paths, C12) -/
theorem C11_sameKey_keyEq (a b c : BKey) :
    sameKey a a = true ∧ (sameKey a b = true → sameKey b a = true) ∧
    (sameKey a b = true → sameKey b c = true → sameKey a c = true) ∧
    (keyEq a b = true ↔ (sameKey a b = true ∧ (keyOf a.2).isSome = true)) ∧
    (wfPath a.2 = true → sameKey a b = true → keyEq a b = true) :=
  ⟨sameKey_refl a, sameKey_symm, sameKey_trans, keyEq_iff_sameKey a b, fun hw h => keyEq_of_sameKey_wf h hw⟩

/-- ROWS HOLD EACH MEMBER'S OWN BINDINGS. In every family of an accepted grouping, row `i` of every dispatch key
    `kr = (key, rows)` is the folded binding row of member `i` for one of ITS OWN bound keys `k'`
    (`(k', r) ∈ otherFold b`), and the family's key is — up to `sameKey` — one of the re-expressions of `k'` over the
    family's parameters under the substitution the search used for that member (`reexpr`; the key itself for the
    founding member). When two keys of one joining block are re-expressed to `keyEq` keys, `insertKey` keeps the row
    of the later one: `k'` is then that later key (hence `∃ k'`). -/
theorem C11_rows_own_bindings (items : List T) (groups : Groups) (h : parseGroups items = .ok groups) :
    ∀ e ∈ groups, ∀ kr ∈ e.2.1.bounds, ∀ (i : Nat) (b : Blk) (r : Row), e.2.2[i]? = some b → kr.2[i]? = some r →
      ∃ k', (k', r) ∈ otherFold b ∧ ∃ sk ∈ reexpr (parseEnv items) e.1 i b k', sameKey sk kr.1 = true := by
  intro e he kr hkr
  exact ((parseGroups_rowsOwn h he).2.2 kr hkr).2.1

/-- every dispatch key of every family of an accepted grouping has a dispatch key in the sense of C12 (`keyOf`):
    its trait path has a last segment with no, angle-bracketed or parenthesized arguments (`cmpPath`, `C12_key_defined`),
    so `TraitBound::eq` can compare it (a key that it cannot compare is never joined by a second member and, carrying no
    binding, is pruned) -/
theorem C11_keys_have_dispatch_key (items : List T) (groups : Groups) (h : parseGroups items = .ok groups) :
    ∀ e ∈ groups, ∀ kr ∈ e.2.1.bounds, (keyOf kr.1.2).isSome = true ∧ keyEq kr.1 kr.1 = true := by
  intro e he kr hkr
  have := parseGroups_keys_some h he kr hkr
  exact ⟨this, (keyEq_iff_sameKey kr.1 kr.1).2 ⟨sameKey_refl _, this⟩⟩

/-- … hence `C11_rows_own_bindings` holds with the IndexMap look-up equality `keyEq` itself -/
theorem C11_rows_own_bindings_keyEq (items : List T) (groups : Groups) (h : parseGroups items = .ok groups) :
    ∀ e ∈ groups, ∀ kr ∈ e.2.1.bounds,
      ∀ (i : Nat) (b : Blk) (r : Row), e.2.2[i]? = some b → kr.2[i]? = some r →
      ∃ k', (k', r) ∈ otherFold b ∧ ∃ sk ∈ reexpr (parseEnv items) e.1 i b k', keyEq sk kr.1 = true := by
  intro e he kr hkr i b r hb hr
  have hsome := (C11_keys_have_dispatch_key items groups h e he kr hkr).1
  obtain ⟨k', hk', sk, hsk, hs⟩ := C11_rows_own_bindings items groups h e he kr hkr i b r hb hr
  refine ⟨k', hk', sk, hsk, (keyEq_iff_sameKey sk kr.1).2 ⟨hs, ?_⟩⟩
  have : keyOf sk.2 = keyOf kr.1.2 := by
    simp only [sameKey, decide_eq_true_eq] at hs; exact hs.2
  rw [this]; exact hsome

/-- the stored key of every dispatch key entry is itself one of the re-expressions of an own key of some member
    (the last member that joined: `intersection` stores the joining member's re-expressed key) -/
theorem C11_stored_key_is_reexpression (items : List T) (groups : Groups) (h : parseGroups items = .ok groups) :
    ∀ e ∈ groups, ∀ kr ∈ e.2.1.bounds, ∃ (i : Nat) (b : Blk) (k' : BKey) (r : Row),
      e.2.2[i]? = some b ∧ (k', r) ∈ otherFold b ∧ kr.1 ∈ reexpr (parseEnv items) e.1 i b k' := by
  intro e he kr hkr
  exact ((parseGroups_rowsOwn h he).2.2 kr hkr).2.2

/-- which members a family has: at least one; the founding member has the family's header; for every later member
    the search had a substitution `σ` (recorded by `make_sets`, or the self-match), and its re-expressions are
    `substituteBound σ` -/
theorem C11_member_substitutions (items : List T) (groups : Groups) (h : parseGroups items = .ok groups) :
    ∀ e ∈ groups, e.2.2 ≠ [] ∧ ∀ (i : Nat) (b : Blk), e.2.2[i]? = some b →
      (i = 0 → groupIdOf b.item = e.1) ∧
      (i ≠ 0 → ∃ σ, memberSubst (parseEnv items) e.1 (groupIdOf b.item) = some σ ∧
        ∀ k', reexpr (parseEnv items) e.1 i b k' = substituteBound σ k'.1 k'.2) := by
  intro e he
  obtain ⟨h1, h2, _⟩ := parseGroups_rowsOwn h he
  refine ⟨h1, fun i b hb => ⟨fun hi => ?_, fun hi => ?_⟩⟩
  · have := h2 i b hb; rw [if_pos hi] at this; exact this
  · have := h2 i b hb
    rw [if_neg hi] at this
    obtain ⟨σ, hσ⟩ := Option.isSome_iff_exists.1 this
    exact ⟨σ, hσ, fun k' => C11_reexpr_later _ _ i b k' σ hi hσ⟩

/-- the complementary clause: the family dispatches only on keys that EVERY member bounds — every member has a row
    under every key, and it is its own -/
theorem C11_every_member_bounds_every_key (items : List T) (groups : Groups) (h : parseGroups items = .ok groups) :
    ∀ e ∈ groups, ∀ kr ∈ e.2.1.bounds, ∀ (i : Nat) (b : Blk), e.2.2[i]? = some b →
      ∃ r k', kr.2[i]? = some r ∧ (k', r) ∈ otherFold b ∧
        ∃ sk ∈ reexpr (parseEnv items) e.1 i b k', sameKey sk kr.1 = true := by
  intro e he kr hkr i b hb
  have hlen := C11_rows_aligned items groups h e he kr hkr
  have hi : i < kr.2.length := by
    rw [hlen]
    rcases Nat.lt_or_ge i e.2.2.length with h1 | h1
    · exact h1
    · rw [List.getElem?_eq_none h1] at hb; cases hb
  have hr : kr.2[i]? = some kr.2[i] := List.getElem?_eq_getElem hi
  obtain ⟨k', hk', hsk⟩ := C11_rows_own_bindings items groups h e he kr hkr i b _ hb hr
  exact ⟨_, k', hr, hk', hsk⟩

/-- wildcards: the payload of member `i` under the key / associated type `(k, a)` of the family (`ABG.payloads`,
    `ABG.idents`) is what the member's own folded row `r` — for one of its own keys re-expressed to `k` — binds `a`
    to; so it is a wildcard (`none`) EXACTLY when that own row has no binding for `a` (`rowLookup r a = none`) -/
theorem C11_payload_is_own_binding (items : List T) (groups : Groups) (h : parseGroups items = .ok groups) :
    ∀ e ∈ groups, ∀ (i j : Nat) (ps : List (Option T)) (k : BKey) (a : String) (b : Blk),
      e.2.1.payloads[i]? = some ps → e.2.1.idents[j]? = some (k, a) → e.2.2[i]? = some b →
      ∃ k' r, (k', r) ∈ otherFold b ∧ (∃ sk ∈ reexpr (parseEnv items) e.1 i b k', keyEq sk k = true) ∧
        ps[j]? = some (rowLookup r a) := by
  intro e he i j ps k a b hp hx hb
  obtain ⟨rows, hrows⟩ := idents_mem (List.mem_of_getElem? hx)
  have hsome := parseGroups_keys_some h he (k, rows) hrows
  obtain ⟨entry, hent, hcase⟩ := rowsOwn_payload (parseGroups_rowsOwn h he) hp hx hb
  rcases hcase with ⟨hnone, _⟩ | ⟨k', r, hk', ⟨sk, hsk, hs⟩, hentry⟩
  · simp only at hsome; rw [hsome] at hnone; cases hnone
  · refine ⟨k', r, hk', ⟨sk, hsk, (keyEq_iff_sameKey sk k).2 ⟨hs, ?_⟩⟩, by rw [hent, hentry]⟩
    have : keyOf sk.2 = keyOf k.2 := by
      simp only [sameKey, decide_eq_true_eq] at hs; exact hs.2
    rw [this]; exact hsome

/-- every binding of a member's folded row is a binding the user wrote in one of that block's trait bounds with the
    same dispatch key, and the keys of the fold are keys of the block's bounds: the rows contain nothing but the
    member's own bindings -/
theorem C11_fold_is_own (b : Blk) : ∀ e ∈ otherFold b,
    (∃ rb ∈ b.raw, e.1 = (rb.bounded, rb.tr)) ∧
    ∀ a p, rowLookup e.2 a = some p → ∃ rb ∈ b.raw, (a, p) ∈ rb.binds ∧ sameKey (rb.bounded, rb.tr) e.1 = true :=
  otherFold_spec b

namespace Ex11
/-- an impl with a where-clause -/
def implW (params : List T) (preds : List T) (self : T) : T :=
  .node "ItemImpl" [] [attrs, leaf "None", leaf "None",
    .node "Generics" [] [leaf "Some", .node "List" [] params, leaf "Some",
      .node "Some" [] [.node "WhereClause" [] [.node "List" [] preds]]],
    .node "Some" [] [.node "Tuple" [] [leaf "None", path [seg "Kita"]]], self, .node "List" [] []]
/-- `bounded: bs` -/
def pred (bounded : T) (bs : List T) : T :=
  .node "WherePredicate::Type" [] [.node "PredicateType" [] [leaf "None", bounded, .node "List" [] bs]]
/-- `impl<T: Dispatch<Group = GroupC>> Kita for T {}`  +
    `impl<T> Kita for Vec<T> where T: Dispatch<Group = GroupA>, Vec<T>: Dispatch<Group = GroupB> {}` -/
def itemsCollide : List T := [blockSelf "GroupC" tT,
  implW [tyParam "T" []] [pred tT [traitBound (dispatch "GroupA")], pred (vecOf tT) [traitBound (dispatch "GroupB")]] (vecOf tT)]
end Ex11

/-- the second member (index 1) has two own keys, not `keyEq`, both re-expressed to a key of the family, and its row
    under that key is the fold of the second of them only -/
def rowCollision (items : List T) (gs : Groups) : Bool :=
  gs.any (fun (e : T × ABG × List Blk) => e.2.1.bounds.any (fun (kr : BKey × List Row) =>
    match e.2.2[1]?, kr.2[1]? with
    | some b, some r =>
      (otherFold b).any (fun (x1 : BKey × Row) => (otherFold b).any (fun (x2 : BKey × Row) =>
        !keyEq x1.1 x2.1 && x1.2 != r && x2.2 == r &&
        (reexpr (parseEnv items) e.1 1 b x1.1).any (fun sk => keyEq sk kr.1) &&
        (reexpr (parseEnv items) e.1 1 b x2.1).any (fun sk => keyEq sk kr.1)))
    | _, _ => false))

set_option maxRecDepth 1000000 in
/-- the `∃ k'` of `C11_rows_own_bindings` cannot be strengthened to "for every own key `k'` of the member whose
    re-expression is the family's key, row `i` is the fold of `k'`": two different own keys of one joining member can be
    re-expressed to the same key of the family, and `insertKey` then keeps the row of the later one only.
    Witness (accepted, one family, two members): in `impl<T> Kita for Vec<T> where T: Dispatch<Group = GroupA>,
    Vec<T>: Dispatch<Group = GroupB>` joining the family of `impl<T: Dispatch<Group = GroupC>> Kita for T` under
    `σ = {T ↦ Vec<T>}`, the bound on `Vec<T>` is re-expressed to `T: Dispatch` (correct) and the bound on `T` — which is
    outside the image of `σ` — is left as `T: Dispatch` too (finding D4, `C10_roundtrip_counterexample_untouched`); the
    member's row is `Group = GroupB`, the binding `Group = GroupA` takes no part in the dispatch. -/
theorem C11_rows_own_uniqueness_counterexample :
    ∃ gs, parseGroups Ex11.itemsCollide = .ok gs ∧
      (gs.map (fun (e : T × ABG × List Blk) => (e.2.2.length, e.2.1.bounds.map (fun kr => kr.2.length))) == [(2, [2])] &&
       rowCollision Ex11.itemsCollide gs) = true :=
  ParseResult.ok_of_check (f := fun gs =>
    gs.map (fun (e : T × ABG × List Blk) => (e.2.2.length, e.2.1.bounds.map (fun kr => kr.2.length))) == [(2, [2])] &&
    rowCollision Ex11.itemsCollide gs) (by with_unfolding_all decide)

section RowsOwnExamples
open Ex11
set_option maxRecDepth 1000000

/-- executable form of the conclusion of `C11_rows_own_bindings` (for the examples, and for the harness) -/
def rowsOwnB (items : List T) (groups : Groups) : Bool :=
  groups.all (fun e => e.2.1.bounds.all (fun kr => (List.range e.2.2.length).all (fun i =>
    match e.2.2[i]?, kr.2[i]? with
    | some b, some r => (otherFold b).any (fun kr' => kr'.2 == r &&
        (reexpr (parseEnv items) e.1 i b kr'.1).any (fun sk => sameKey sk kr.1))
    | _, _ => false)))

/-- non-vacuity: the README pair (same header: the second member joins through the self-match) and a nested pair
    `… for T` / `… for Vec<T>` (the second member joins through the substitution `make_sets` recorded) are accepted
    as one family with two members and one key with two rows, and the conclusion — evaluated — holds with both
    members' rows present -/
theorem C11_rows_own_examples :
    (match parseGroups [blockFor "GroupA", blockFor "GroupB"] with
     | .ok gs => gs.map (fun (e : T × ABG × List Blk) => (e.2.2.length, e.2.1.bounds.map (fun kr => kr.2.length))) == [(2, [2])] &&
         rowsOwnB [blockFor "GroupA", blockFor "GroupB"] gs
     | _ => false) = true ∧
    (match parseGroups [blockSelf "GroupA" tT, blockSelf "GroupB" (vecOf tT)] with
     | .ok gs => gs.map (fun (e : T × ABG × List Blk) => (e.2.2.length, e.2.1.bounds.map (fun kr => kr.2.length))) == [(2, [2])] &&
         rowsOwnB [blockSelf "GroupA" tT, blockSelf "GroupB" (vecOf tT)] gs &&
         gs.all (fun e => e.2.2.all (fun b => groupIdOf b.item == e.1 ||
           ((parseEnv [blockSelf "GroupA" tT, blockSelf "GroupB" (vecOf tT)]).subsets.get e.1).any (fun p => p.1 == groupIdOf b.item)))
     | _ => false) = true := by
  constructor <;> with_unfolding_all decide
end RowsOwnExamples

/-! ## Part 7 — the substitution of the search is the matcher's answer; the family's keys instantiate to the members' own keys
  (`Lemmas/EndToEndNested.lean`) -/

/-- in the environment of `parseGroups`, the substitution with which the search lets a block with header `hdr` join the
    family `gid` (`memberSubst`: the entry `make_sets` recorded, or the self-match) is the answer of the matcher on the two
    headers — the substitution `Bounds.mkMember` recomputes for the refinement. No side condition. -/
theorem C11_memberSubst_is_matcher_answer (items : List T) (gid hdr : T) (σ : Subst)
    (h : memberSubst (parseEnv items) gid hdr = some σ) : ∃ l, sup gid hdr = .yes σ l :=
  memberSubst_sup_nst h

/-- ROWS ARE THE ROWS OF INSTANCES OF THE FAMILY'S KEYS. In a family of an accepted grouping that passes the executable check
    `nestedGroupOK` (Lemmas/EndToEndNested.lean, described in Props/C02.lean: exact header instance, founding member
    identity, `untouched` — the D4 condition — and `instCommOK_nst` for the own keys re-expressed to family keys,
    well-formed paths, leading `::`, no `?Trait`), row `i` of every dispatch key `kr` is the folded binding row of member `i`
    for an own key `k'` that IS the instance of the family's key under the member's substitution `θ = memberTheta_nst …`
    (the matcher's answer): the bounded type exactly, the trait path up to `normTr`. Without the check this is false
    (finding D4: `C02_end_to_end_memberOK_counterexample_D4`). -/
theorem C11_rows_are_instances (items : List T) (groups : Groups) (h : parseGroups items = .ok groups) :
    ∀ e ∈ groups, nestedGroupOK (parseEnv items) e = true →
      ∀ kr ∈ e.2.1.bounds, ∀ (i : Nat) (b : Blk) (r : Row), e.2.2[i]? = some b → kr.2[i]? = some r →
        ∃ k', (k', r) ∈ otherFold b ∧ inst (memberTheta_nst e.1 b) kr.1.1 = k'.1 ∧
          inst (memberTheta_nst e.1 b) (normTr kr.1.2) = normTr k'.2 := by
  intro e he hok kr hkr i b r hb hr
  obtain ⟨k', hk', sk, hsk, hs⟩ := C11_rows_own_bindings items groups h e he kr hkr i b r hb hr
  exact ⟨k', hk', nested_key_instance h he hok hb (k := kr.1) (rows := kr.2) hkr hk' hsk hs⟩

section RowsInstances
open Ex11
set_option maxRecDepth 1000000

/-- non-vacuity: the nested pair `impl<T: Dispatch<Group = GroupA>> Kita for T` /
    `impl<T> Kita for Vec<T> where Vec<T>: Dispatch<Group = GroupB>` is accepted as one family with two members whose group
    passes `nestedGroupOK`, and the second member's substitution is not the identity -/
example :
    let items := [blockSelf "GroupA" tT, implW [tyParam "T" []] [pred (vecOf tT) [traitBound (dispatch "GroupB")]] (vecOf tT)]
    (match parseGroups items with
     | .ok gs => gs.map (fun (e : T × ABG × List Blk) => (e.2.2.length, e.2.1.bounds.map (fun kr => kr.2.length))) == [(2, [2])] &&
         gs.all (fun e => nestedGroupOK (parseEnv items) e &&
           e.2.2.any (fun b => !allIdentity (memberTheta_nst e.1 b)))
     | _ => false) = true := by decide +kernel
end RowsInstances

/-! ## Part 8 — acyclicity from the shape of the headers: the partition statement without a hypothesis on the relation

`headersWF items` (executable, `Lemmas/Acyclic.lean: headersWFIds`): every bucket header `g` satisfies the side
conditions of the transitivity theorem `C09_trans` — `okT_tr g` (no lenient / panicking kind, no `'_`, well-shaped
generic arguments) and `presInj_tr g` (no type spelled in two ways inside `g`) — and whenever a header `g1`
generalises a header `g2`, the ignored children of `g1` face ignored children of `g2` (`faces_tr g1 (stripTop g2)`;
decoded trees of one syntactic category always do, up to a leading `::`). Then "generalises" is transitive on the
headers (`C11_headers_transitive`), the relation recorded by `make_sets` lies inside a strict order (among mutually
generalising headers only the earlier one is recorded as the generaliser, lib.rs:1022-1031), and Kahn's iteration
`acyclicB` succeeds. -/

/-- the executable per-input condition on the bucket headers -/
def headersWF (items : List T) : Bool := headersWFIds ((mkBuckets (items.map mkBlk)).map (·.1))

/-- the stronger, purely shape-based variant: the ignored children face each other for EVERY ordered pair of headers,
    whether or not one generalises the other -/
def headersWFStrict (items : List T) : Bool :=
  let ids := (mkBuckets (items.map mkBlk)).map (·.1)
  ids.all (fun g => okT_tr g && presInj_tr g) && ids.all (fun g1 => ids.all (fun g2 => faces_tr g1 (stripTop g2)))

theorem C11_headersWF_of_strict (items : List T) (h : headersWFStrict items = true) : headersWF items = true := by
  simp only [headersWFStrict, headersWF, headersWFIds, Bool.and_eq_true, List.all_eq_true, Bool.or_eq_true] at h ⊢
  exact ⟨h.1, fun g1 h1 g2 h2 => Or.inr (h.2 g1 h1 g2 h2)⟩

/-- on well-formed headers "the matcher answers yes" is transitive -/
theorem C11_headers_transitive (items : List T) (hw : headersWF items = true) :
    ∀ a ∈ (mkBuckets (items.map mkBlk)).map (·.1), ∀ b ∈ (mkBuckets (items.map mkBlk)).map (·.1),
    ∀ c ∈ (mkBuckets (items.map mkBlk)).map (·.1), supYes a b = true → supYes b c = true → supYes a c = true :=
  transOn_of_headersWF_tr hw

/-- ACYCLICITY: for well-formed headers the generalisation relation recorded by `make_sets` is acyclic -/
theorem C11_acyclic_of_headersWF (items : List T) (hw : headersWF items = true) : acyclicB items = true :=
  acyclicIds_of_headersWF_tr (mkBuckets_ids_nodup _) hw

/-- PARTITION: every block is placed exactly once in every accepted grouping — the members of all families are a
    rearrangement of the blocks of all buckets — for inputs whose headers are well-formed (`headersWF`, a condition on
    the shape of the headers; nothing is assumed about the generalisation relation among them) -/
theorem C11_partition (items : List T) (groups : Groups) (h : parseGroups items = .ok groups)
    (hw : headersWF items = true) :
    (groups.flatMap (fun e => e.2.2)).Perm ((mkBuckets (items.map mkBlk)).flatMap (fun bk => bk.2)) :=
  C11_partition_acyclic items groups h (C11_acyclic_of_headersWF items hw)

/-- … and the counters unlock every header exactly once -/
theorem C11_traceCovers_of_headersWF (items : List T) (groups : Groups) (h : parseGroups items = .ok groups)
    (hw : headersWF items = true) : traceCovers items = true :=
  C11_traceCovers_of_acyclic items groups h (C11_acyclic_of_headersWF items hw)

section HeadersWF
open Ex11
set_option maxRecDepth 1000000

/-- `headersWF` (even `headersWFStrict`) holds on: the chain `T ⊐ Vec<T> ⊐ Vec<Vec<T>>`; the diamond
    `(T,U) ⊐ (Vec<T>,U), (T,Vec<U>) ⊐ (Vec<T>,Vec<U>)`; the twin headers `(T)` / `T`; and `T ⊐ Vec<T>, (Vec<T>)` -/
theorem C11_headersWF_examples :
    headersWFStrict [blockSelf "GroupA" tT, blockSelf "GroupB" (vecOf tT), blockSelf "GroupC" (vecOf (vecOf tT))] = true ∧
    headersWFStrict [blockSelf2 "GroupA" (tup [tT, tU]), blockSelf2 "GroupB" (tup [vecOf tT, tU]),
      blockSelf2 "GroupC" (tup [tT, vecOf tU]), blockSelf2 "GroupD" (tup [vecOf tT, vecOf tU])] = true ∧
    headersWFStrict [blockSelf "GroupA" (paren tT), blockSelf "GroupB" tT] = true ∧
    headersWFStrict [blockSelf "GroupA" tT, blockSelf "GroupB" (vecOf tT), blockSelf "GroupC" (paren (vecOf tT))] = true := by
  with_unfolding_all decide

/-- the diamond is accepted and, by `C11_partition`, all four blocks are placed exactly once -/
example :
    let items := [blockSelf2 "GroupA" (tup [tT, tU]), blockSelf2 "GroupB" (tup [vecOf tT, tU]),
      blockSelf2 "GroupC" (tup [tT, vecOf tU]), blockSelf2 "GroupD" (tup [vecOf tT, vecOf tU])]
    ∃ gs, parseGroups items = .ok gs ∧
      (gs.flatMap (fun e => e.2.2)).Perm ((mkBuckets (items.map mkBlk)).flatMap (fun bk => bk.2)) := by
  intro items
  obtain ⟨gs, hgs, _⟩ := ParseResult.ok_of_check (r := parseGroups items) (f := fun _ => true)
    (by with_unfolding_all decide)
  exact ⟨gs, hgs, C11_partition items gs hgs (C11_headersWF_of_strict _ C11_headersWF_examples.2.1)⟩

/-- the twin headers `(T)` / `T` (they generalise each other): accepted, both blocks in one family -/
example :
    let items := [blockSelf "GroupA" (paren tT), blockSelf "GroupB" tT]
    ∃ gs, parseGroups items = .ok gs ∧
      (gs.flatMap (fun e => e.2.2)).Perm ((mkBuckets (items.map mkBlk)).flatMap (fun bk => bk.2)) := by
  intro items
  obtain ⟨gs, hgs, _⟩ := C11_partition_mutual_headers_pair
  exact ⟨gs, hgs, C11_partition items gs hgs (C11_headersWF_of_strict _ C11_headersWF_examples.2.2.1)⟩

end HeadersWF

end DI
