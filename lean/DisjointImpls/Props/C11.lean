/-
  C11 — the grouping front end (`ImplGroups::parse`, model `Group.lean`): property theorems about an accepted
  grouping `parseGroups items = .ok groups`. Proofs are in `Lemmas/GroupLemmas.lean`.

  A group is `(id, abg, members)`: the family header, the dispatch keys with one row of bindings per member,
  and the member blocks. `parseEnv items` is the environment the search runs in (buckets by header and the
  generalisation pairs of `make_sets`).

  Part 1: what the candidate filter guarantees. Part 2: invariants of the backtracking search, proved once for
  any per-group property that `ABG.new` establishes and `intersection` preserves (`SearchInv`, `search_inv`).
-/
import DisjointImpls.Lemmas.GroupLemmas
namespace DI

/-! ## Part 1 — the candidate filter -/

/-- every family has at least one dispatch key -/
theorem C11_keys_nonempty (items : List T) (groups : Groups) (h : parseGroups items = .ok groups) :
    ∀ e ∈ groups, e.2.1.bounds ≠ [] := by
  intro e he
  obtain ⟨_, _, _, h1, _⟩ := parseGroups_group' h he (rowsAligned_inv _)
  exact h1

/-- the rows of a family are pairwise distinguishable: no member's row of payloads generalises another's -/
theorem C11_rows_distinguishable (items : List T) (groups : Groups) (h : parseGroups items = .ok groups) :
    ∀ e ∈ groups, e.2.1.isOverlapping = false ∧
      ∀ (i j : Nat) (a b : List (Option T)), i ≠ j → e.2.1.payloads[i]? = some a → e.2.1.payloads[j]? = some b →
        rowGeneralises a b = false := by
  intro e he
  obtain ⟨_, _, _, _, h2⟩ := parseGroups_group' h he (rowsAligned_inv _)
  exact ⟨h2, isOverlapping_false h2⟩

/-- every key that is kept has a binding in some member's row (`prune_non_assoc`) -/
theorem C11_every_key_has_a_binding (items : List T) (groups : Groups) (h : parseGroups items = .ok groups) :
    ∀ e ∈ groups, ∀ kr ∈ e.2.1.bounds, ∃ r ∈ kr.2, r ≠ [] := by
  intro e he kr hkr
  obtain ⟨e0, _, rfl, _, _⟩ := parseGroups_group' h he (rowsAligned_inv _)
  simp only [ABG.prune, List.mem_filter, List.any_eq_true, Bool.not_eq_true', List.isEmpty_eq_false_iff] at hkr
  exact hkr.2

/-! ## Part 2 — invariants of the search -/

/-- rows are aligned with members: every key of a family has exactly one row per member (row `i` belongs to
    member `i`) -/
theorem C11_rows_aligned (items : List T) (groups : Groups) (h : parseGroups items = .ok groups) :
    ∀ e ∈ groups, ∀ kr ∈ e.2.1.bounds, kr.2.length = e.2.2.length := by
  intro e he kr hkr
  obtain ⟨e0, h0, rfl, _, _⟩ := parseGroups_group' h he (rowsAligned_inv _)
  simp only [ABG.prune, List.mem_filter] at hkr
  exact h0 kr hkr.1

/-- every member's header is the family's header or one that `make_sets` recorded as generalised by it -/
theorem C11_members_generalised (items : List T) (groups : Groups) (h : parseGroups items = .ok groups) :
    ∀ e ∈ groups, ∀ b ∈ e.2.2,
      groupIdOf b.item = e.1 ∨ ∃ σ, (groupIdOf b.item, σ) ∈ (parseEnv items).subsets.get e.1 := by
  intro e he b hb
  obtain ⟨e0, h0, rfl, _, _⟩ :=
    parseGroups_group' h he (membersGeneralised_inv (parseEnv items) (mkBuckets_wf _))
  exact h0 b hb

/-- … hence the matcher answered yes: the member's header is an instance of the family's header
    (`C09_sound_wf` turns the answer into `erase (inst σ id) = erase (member header)`) -/
theorem C11_members_matched (items : List T) (groups : Groups) (h : parseGroups items = .ok groups) :
    ∀ e ∈ groups, ∀ b ∈ e.2.2, groupIdOf b.item = e.1 ∨ ∃ σ l, sup e.1 (groupIdOf b.item) = .yes σ l := by
  intro e he b hb
  rcases C11_members_generalised items groups h e he b hb with h1 | ⟨σ, hσ⟩
  · exact Or.inl h1
  · obtain ⟨_, l, hl⟩ := makeSets_subsets hσ
    exact Or.inr ⟨σ, l, hl⟩

/-- every member of every family is one of the input blocks (a block of some bucket) -/
theorem C11_members_from_buckets (items : List T) (groups : Groups) (h : parseGroups items = .ok groups) :
    ∀ e ∈ groups, ∀ b ∈ e.2.2, ∃ bk ∈ mkBuckets (items.map mkBlk), b ∈ bk.2 := by
  intro e he b hb
  obtain ⟨e0, h0, rfl, _, _⟩ := parseGroups_group' h he (membersFromBuckets_inv (parseEnv items))
  exact h0 b hb

/-- and sits in the bucket of its own header -/
theorem C11_buckets_by_header (items : List T) : ∀ bk ∈ mkBuckets (items.map mkBlk), ∀ b ∈ bk.2, groupIdOf b.item = bk.1 :=
  mkBuckets_wf _

/-- the general form: any per-group property established by `ABG.new` and preserved by `intersection` holds for
    every candidate the search returns from a root -/
theorem C11_search_invariant (env : Env) (GP : T × ABG × List Blk → Prop) (BP : T → Blk → Prop)
    (H : SearchInv env GP BP) (fuel : Nat) (r : T) (sup : Supersets) (cands : List Groups) (sup' : Supersets)
    (h : searchRec env fuel r (env.impls r) sup [] = .ok (cands, sup')) : ∀ g ∈ cands, ∀ e ∈ g, GP e :=
  search_root_inv H h

/-! ## Part 3 — partition -/

/-- executable form of "no header generalises another one": `make_sets` finds no pair -/
def noNesting (items : List T) : Bool := (msPairs ((mkBuckets (items.map mkBlk)).map (·.1))).isEmpty

theorem noNesting_spec (items : List T) (h : noNesting items = true) : ∀ id, (parseEnv items).subsets.get id = [] := by
  intro id
  have hp : msPairs ((mkBuckets (items.map mkBlk)).map (·.1)) = [] := by simpa [noNesting] using h
  simp only [parseEnv, makeSets_eq, hp, List.filter_nil, List.map_nil]
  unfold Subsets.get
  split
  · next e hf =>
    have := List.mem_of_find?_eq_some hf
    obtain ⟨x, _, rfl⟩ := List.mem_map.1 this
    rfl
  · rfl

/-- every block is placed exactly once — proved for inputs without nested headers (no header generalises another
    one, so `unlock_subset_impl_groups` has nothing to unlock and every bucket is a root):
    the members of all families are a rearrangement of the blocks of all buckets.

    The full statement (same conclusion without `noNesting`) is open: it needs the counter discipline of
    `searchUnlock` — that across the backtracking alternatives every header is unlocked exactly once, when its
    superset counter reaches 0. What is proved towards it: `searchRec_placed` (the blocks handed to one call are
    placed exactly once in every candidate, with distinct family headers) does not use `noNesting` except in the
    final `searchUnlock` step. -/
theorem C11_partition_partial (items : List T) (groups : Groups) (h : parseGroups items = .ok groups)
    (hn : noNesting items = true) :
    (groups.flatMap (fun e => e.2.2)).Perm ((mkBuckets (items.map mkBlk)).flatMap (fun bk => bk.2)) :=
  parseGroups_partition_partial h (noNesting_spec items hn)

/-- the buckets hold the input blocks: for pairwise different block texts, every input block is in the bucket of
    its header and nothing else is -/
theorem C11_buckets_hold_blocks (items : List T) (hnd : ((items.map mkBlk).map (·.item)).Nodup) :
    ∀ bk ∈ mkBuckets (items.map mkBlk), bk.2 = (items.map mkBlk).filter (fun b => groupIdOf b.item == bk.1) :=
  (mkBuckets_char _ hnd).1

/-! ### Trees for the closed examples -/

namespace Ex11
def leaf (s : String) : T := .node s [] []
def attrs : T := .node "Ign" [] [.node "List" [] []]
def seg (x : String) : T := .node "PathSegment" [] [.node "Ident" [x] [], leaf "PathArguments::None"]
def path (segs : List T) : T := .node "Path" [] [.node "IgnL" [] [leaf "None"], .node "List" [] segs]
def tyPath (segs : List T) : T := .node "Type::Path" [] [leaf "None", path segs]
def tyParam (x : String) (bounds : List T) : T :=
  .node "GenericParam::Type" [] [.node "TypeParam" [] [attrs, .node "Ident" [x] [], leaf "None",
    .node "List" [] bounds, leaf "None", leaf "None"]]
def traitBound (p : T) : T :=
  .node "TypeParamBound::Trait" [] [.node "TraitBound" [] [leaf "None", leaf "TraitBoundModifier::None", leaf "None", p]]
/-- `Dispatch<Group = g>` -/
def dispatch (g : String) : T :=
  path [.node "PathSegment" [] [.node "Ident" ["Dispatch"] [], .node "PathArguments::AngleBracketed" [] [.node "Ign" [] [leaf "None"],
    .node "List" [] [.node "GenericArgument::AssocType" [] [.node "AssocType" [] [.node "Ident" ["Group"] [], leaf "None", tyPath [seg g]]]]]]]
def implOf (params : List T) (self : T) : T :=
  .node "ItemImpl" [] [attrs, leaf "None", leaf "None",
    .node "Generics" [] [leaf "Some", .node "List" [] params, leaf "Some", leaf "None"],
    .node "Some" [] [.node "Tuple" [] [leaf "None", path [seg "Kita"]]], self, .node "List" [] []]
/-- `impl<T: Dispatch<Group = g>> Kita for T {}` -/
def blockFor (g : String) : T := implOf [tyParam "T" [traitBound (dispatch g)]] (tyPath [seg "T"])
end Ex11

theorem ParseResult.ok_of_check {r : ParseResult} {f : Groups → Bool}
    (h : (match r with | .ok gs => f gs | _ => false) = true) : ∃ gs, r = .ok gs ∧ f gs = true := by
  cases r with
  | ok gs => exact ⟨gs, rfl, h⟩
  | unableToForm _ => cases h
  | panic _ => cases h

/-! ## Part 4 — partition with nested headers: reduced to the counters -/

/-- every block of every header the search processes is placed exactly once, in every accepted grouping:
    the members are a rearrangement of the blocks of the processed headers, `parseTrace items` — a function of
    the superset counters alone (`traceRec` / `traceUnlock` / `traceGo` mirror the search but only follow the
    counters). In particular the counters returned by all backtracking alternatives agree (`search_trace`), so
    taking those of the last successful alternative is harmless. -/
theorem C11_members_are_trace_blocks (items : List T) (groups : Groups) (h : parseGroups items = .ok groups) :
    ∃ tr, parseTrace items = some tr ∧
      (groups.flatMap (fun e => e.2.2)).Perm (tr.flatMap (parseEnv items).impls) :=
  parseGroups_trace h

/-- partition for inputs with nested headers, under the executable condition `traceCovers items`: the counters
    unlock every header exactly once (`parseTrace items` is a rearrangement of the bucket headers) -/
theorem C11_partition_of_trace (items : List T) (groups : Groups) (h : parseGroups items = .ok groups)
    (hc : traceCovers items = true) :
    (groups.flatMap (fun e => e.2.2)).Perm ((mkBuckets (items.map mkBlk)).flatMap (fun bk => bk.2)) :=
  parseGroups_partition_of_trace h hc

namespace Ex11
/-- `impl<T: Dispatch<Group = g>> Kita for self {}` -/
def blockSelf (g : String) (self : T) : T := implOf [tyParam "T" [traitBound (dispatch g)]] self
def paren (t : T) : T := .node "Type::Paren" [] [t]
/-- `Vec<x>` -/
def vecOf (x : T) : T := tyPath [.node "PathSegment" [] [.node "Ident" ["Vec"] [],
  .node "PathArguments::AngleBracketed" [] [.node "Ign" [] [leaf "None"], .node "List" [] [.node "GenericArgument::Type" [] [x]]]]]
def tT : T := tyPath [seg "T"]
end Ex11

section Defect
open Ex11
set_option maxRecDepth 1000000

/-- regression witness of a repaired defect (/repo commit 3e16a6b "fix: impl group ids that generalise each other no
    longer wait on each other"): two headers that generalise each other — they differ only by parentheses — used to
    be given a non-zero superset counter each, neither was a root and the accepted grouping was EMPTY. Now the earlier
    one is the root, both blocks are placed in one family and the counters cover every header.
    `impl<T: Dispatch<Group = GroupA>> Kita for (T) {}`  +  `impl<T: Dispatch<Group = GroupB>> Kita for T {}` -/
theorem C11_partition_mutual_headers_pair :
    ∃ gs, parseGroups [blockSelf "GroupA" (paren tT), blockSelf "GroupB" tT] = .ok gs ∧
      (gs.map (fun (e : T × ABG × List Blk) => e.2.2.length) == [2] &&
       traceCovers [blockSelf "GroupA" (paren tT), blockSelf "GroupB" tT]) = true :=
  ParseResult.ok_of_check (f := fun gs => gs.map (fun (e : T × ABG × List Blk) => e.2.2.length) == [2] &&
    traceCovers [blockSelf "GroupA" (paren tT), blockSelf "GroupB" tT]) (by with_unfolding_all decide)

/-- regression witness, former partial loss: below a common generaliser the two mutually generalising headers
    never reached counter 0 and two of three blocks were dropped; now all three are placed in one family.
    `… Kita for T {}`  +  `… Kita for Vec<T> {}`  +  `… Kita for (Vec<T>) {}` (three different `Group`s) -/
theorem C11_partition_mutual_headers_nested :
    ∃ gs, parseGroups [blockSelf "GroupA" tT, blockSelf "GroupB" (vecOf tT), blockSelf "GroupC" (paren (vecOf tT))] = .ok gs ∧
      (gs.map (fun (e : T × ABG × List Blk) => e.2.2.length) == [3] &&
       traceCovers [blockSelf "GroupA" tT, blockSelf "GroupB" (vecOf tT), blockSelf "GroupC" (paren (vecOf tT))]) = true :=
  ParseResult.ok_of_check (f := fun gs => gs.map (fun (e : T × ABG × List Blk) => e.2.2.length) == [3] &&
    traceCovers [blockSelf "GroupA" tT, blockSelf "GroupB" (vecOf tT), blockSelf "GroupC" (paren (vecOf tT))])
    (by with_unfolding_all decide)

/-- `traceCovers` holds on nested inputs without mutual generalisation: a chain `T ⊐ Vec<T>`, accepted with both
    blocks placed -/
example : traceCovers [blockSelf "GroupA" tT, blockSelf "GroupB" (vecOf tT)] = true ∧
    noNesting [blockSelf "GroupA" tT, blockSelf "GroupB" (vecOf tT)] = false := by with_unfolding_all decide
end Defect

/-! ## Part 4b — partition for nested headers, under executable acyclicity (Kahn's argument) -/

/-- if the generalisation relation recorded by `make_sets` between the bucket headers is acyclic (`acyclicB`:
    peeling off the headers without a remaining recorded generaliser `|headers|` times leaves nothing), the
    counters unlock every header exactly once -/
theorem C11_traceCovers_of_acyclic (items : List T) (groups : Groups) (h : parseGroups items = .ok groups)
    (ha : acyclicB items = true) : traceCovers items = true := by
  obtain ⟨tr, ht, _⟩ := parseGroups_trace h
  exact traceCovers_of_acyclic items tr ht ha

/-- the full partition statement for inputs with nested headers (chains, diamonds, …): every block is placed
    exactly once in every accepted grouping, provided the recorded header relation is acyclic -/
theorem C11_partition_acyclic (items : List T) (groups : Groups) (h : parseGroups items = .ok groups)
    (ha : acyclicB items = true) :
    (groups.flatMap (fun e => e.2.2)).Perm ((mkBuckets (items.map mkBlk)).flatMap (fun bk => bk.2)) :=
  parseGroups_partition_acyclic h ha

namespace Ex11
/-- `impl<T: Dispatch<Group = g>, U> Kita for self {}` -/
def blockSelf2 (g : String) (self : T) : T := implOf [tyParam "T" [traitBound (dispatch g)], tyParam "U" []] self
def tU : T := tyPath [seg "U"]
def tup (xs : List T) : T := .node "Type::Tuple" [] [.node "List" [] xs]
end Ex11

section Acyclic
open Ex11
set_option maxRecDepth 1000000

/-- `acyclicB` holds on: a chain `T ⊐ Vec<T> ⊐ Vec<Vec<T>>`; the diamond
    `(T,U) ⊐ (Vec<T>,U), (T,Vec<U>) ⊐ (Vec<T>,Vec<U>)` in both input orders; a V-shape `(Vec<T>,U), (T,Vec<U>) ⊐
    (Vec<T>,Vec<U>)` with two roots; and the two mutual-header inputs of the repaired defect -/
theorem C11_acyclic_examples :
    acyclicB [blockSelf "GroupA" tT, blockSelf "GroupB" (vecOf tT), blockSelf "GroupC" (vecOf (vecOf tT))] = true ∧
    acyclicB [blockSelf2 "GroupA" (tup [tT, tU]), blockSelf2 "GroupB" (tup [vecOf tT, tU]),
      blockSelf2 "GroupC" (tup [tT, vecOf tU]), blockSelf2 "GroupD" (tup [vecOf tT, vecOf tU])] = true ∧
    acyclicB [blockSelf2 "GroupD" (tup [vecOf tT, vecOf tU]), blockSelf2 "GroupC" (tup [tT, vecOf tU]),
      blockSelf2 "GroupB" (tup [vecOf tT, tU]), blockSelf2 "GroupA" (tup [tT, tU])] = true ∧
    acyclicB [blockSelf2 "GroupB" (tup [vecOf tT, tU]), blockSelf2 "GroupC" (tup [tT, vecOf tU]),
      blockSelf2 "GroupD" (tup [vecOf tT, vecOf tU])] = true ∧
    acyclicB [blockSelf "GroupA" (paren tT), blockSelf "GroupB" tT] = true ∧
    acyclicB [blockSelf "GroupA" tT, blockSelf "GroupB" (vecOf tT), blockSelf "GroupC" (paren (vecOf tT))] = true := by
  with_unfolding_all decide

/-- the diamond is accepted, and by `C11_partition_acyclic` all four blocks are placed exactly once -/
example :
    let items := [blockSelf2 "GroupA" (tup [tT, tU]), blockSelf2 "GroupB" (tup [vecOf tT, tU]),
      blockSelf2 "GroupC" (tup [tT, vecOf tU]), blockSelf2 "GroupD" (tup [vecOf tT, vecOf tU])]
    ∃ gs, parseGroups items = .ok gs ∧
      (gs.flatMap (fun e => e.2.2)).Perm ((mkBuckets (items.map mkBlk)).flatMap (fun bk => bk.2)) := by
  intro items
  obtain ⟨gs, hgs, _⟩ := ParseResult.ok_of_check (r := parseGroups items) (f := fun _ => true)
    (by with_unfolding_all decide)
  exact ⟨gs, hgs, C11_partition_acyclic items gs hgs C11_acyclic_examples.2.1⟩
end Acyclic

/-! ## Part 5 — families with unrelated headers are independent -/

/-- without nested headers the grouping is computed bucket by bucket by the plain recursion `flatSearch`
    (no counters, no unlocking): `parseGroups` is `goFlat` over the buckets -/
theorem C11_flat (items : List T) (hn : noNesting items = true) :
    parseGroups items = goFlat (mkBuckets (items.map mkBlk)) [] :=
  parseGroups_flat items (noNesting_spec items hn)

/-- two lists of blocks with disjoint sets of headers, no header generalising another one: the grouping of the
    concatenation is the concatenation of the groupings (and it fails exactly when the first failing part fails) -/
theorem C11_independent (items1 items2 : List T)
    (hdisj : ∀ b1 ∈ items1.map mkBlk, ∀ b2 ∈ items2.map mkBlk, groupIdOf b1.item ≠ groupIdOf b2.item)
    (hn : noNesting (items1 ++ items2) = true) :
    parseGroups (items1 ++ items2) =
      (match parseGroups items1 with
       | .ok g1 => (parseGroups items2).prepend g1
       | r => r) :=
  parseGroups_independent items1 items2 hdisj (by simpa [noNesting] using hn)

/-! ## Non-vacuity: the README example is accepted -/


set_option maxRecDepth 1000000 in
/-- `impl<T: Dispatch<Group = GroupA>> Kita for T` and `… GroupB …`: accepted, one family with both blocks, one key,
    two rows — so the hypotheses of the theorems above are satisfiable -/
theorem C11_readme_example_accepted :
    ∃ gs, parseGroups [Ex11.blockFor "GroupA", Ex11.blockFor "GroupB"] = .ok gs ∧
      (gs.map (fun (e : T × ABG × List Blk) => (e.2.2.length, e.2.1.bounds.length, e.2.1.payloads.length)) == [(2, 1, 2)]) = true :=
  ParseResult.ok_of_check (f := fun gs => gs.map (fun (e : T × ABG × List Blk) =>
    (e.2.2.length, e.2.1.bounds.length, e.2.1.payloads.length)) == [(2, 1, 2)]) (by with_unfolding_all decide)

set_option maxRecDepth 1000000 in
/-- the README example has no nested headers, so `C11_partition_partial` applies to it -/
example : noNesting [Ex11.blockFor "GroupA", Ex11.blockFor "GroupB"] = true := by with_unfolding_all decide

end DI
