/-
  C05 — block order independence. Property theorems only.
  The specification side of dispatch (`applies`) does not mention the order of the blocks; by the refinement (C02) a
  well-formed grouping of *any* order of the blocks implements exactly that specification, hence two orders whose
  groupings are well-formed dispatch identically. (That the search produces a well-formed grouping for every order is
  C11's subject and is re-validated on the real grouping for every generated order.)
-/
import DisjointImpls.Lemmas.Refine
import DisjointImpls.Lemmas.GroupLemmas
namespace DI

/-- "some block applies" is invariant under permuting the blocks -/
theorem C05_spec_order_invariant (W : World) (q : T) (bs bs' : List Block) (h : bs.Perm bs') :
    (∃ b ∈ bs, applies W b q) ↔ (∃ b ∈ bs', applies W b q) := by
  constructor
  · rintro ⟨b, hb, ha⟩; exact ⟨b, h.mem_iff.mp hb, ha⟩
  · rintro ⟨b, hb, ha⟩; exact ⟨b, h.mem_iff.mpr hb, ha⟩

/-- a grouping (list of families) is well-formed in world `W` -/
def GroupingWF (W : World) (G : List Family) : Prop :=
  ∀ F ∈ G, WorldTotal W F ∧ ∀ m ∈ F.members, memberOK F m = true ∧ ThetaCovers F m ∧ SizedCompat W F m

def blocksOf (G : List Family) : List Block := G.flatMap (fun F => F.members.map (·.blk))

/-- the trait is implemented for `q` through some family of the grouping -/
def implemented (W : World) (G : List Family) (q : T) : Prop := ∃ F ∈ G, ∃ m ∈ F.members, genSel W F m q

theorem implemented_iff_applies (W : World) (G : List Family) (hG : GroupingWF W G) (q : T) :
    implemented W G q ↔ ∃ b ∈ blocksOf G, applies W b q := by
  constructor
  · rintro ⟨F, hF, m, hm, hs⟩
    refine ⟨m.blk, ?_, gen_sub_spec W F m q hs⟩
    simp only [blocksOf, List.mem_flatMap, List.mem_map]
    exact ⟨F, hF, m, hm, rfl⟩
  · rintro ⟨b, hb, ha⟩
    simp only [blocksOf, List.mem_flatMap, List.mem_map] at hb
    obtain ⟨F, hF, m, hm, rfl⟩ := hb
    obtain ⟨hw, hmem⟩ := hG F hF
    obtain ⟨ok, tc, sc⟩ := hmem m hm
    exact ⟨F, hF, m, hm, spec_sub_gen W F m q ok hw tc sc ha⟩

/-- two groupings of the same blocks in different orders (e.g. the groupings the macro computes for two
    permutations of one invocation) implement the trait for exactly the same queries -/
theorem C05_dispatch_invariant (W : World) (G G' : List Family) (hG : GroupingWF W G) (hG' : GroupingWF W G')
    (hperm : (blocksOf G).Perm (blocksOf G')) (q : T) :
    implemented W G q ↔ implemented W G' q := by
  rw [implemented_iff_applies W G hG, implemented_iff_applies W G' hG']
  exact C05_spec_order_invariant W q _ _ hperm

/-- and select the same block: whatever member either grouping selects is a block of the (order-free) specification -/
theorem C05_selected_block_order_free (W : World) (G : List Family) (F : Family) (m : Member) (q : T)
    (_ : F ∈ G) (_ : m ∈ F.members) : genSel W F m q → applies W m.blk q :=
  gen_sub_spec W F m q

/-- the first step of the grouping does not depend on the order of the blocks: for pairwise different block texts,
    the buckets of a permutation have the same headers and, under each header, the same blocks, up to order -/
theorem C05_buckets_order_free (bs bs' : List Blk) (hp : bs.Perm bs') (hnd : (bs.map (·.item)).Nodup) :
    ((mkBuckets bs).map (·.1)).Perm ((mkBuckets bs').map (·.1)) ∧
    ∀ id blks blks', (id, blks) ∈ mkBuckets bs → (id, blks') ∈ mkBuckets bs' → blks.Perm blks' :=
  mkBuckets_perm hp hnd

/-- what the buckets are, independently of any order: the bucket of a header holds exactly the blocks with that
    header, and the headers are those of the blocks -/
theorem C05_buckets_characterised (bs : List Blk) (hnd : (bs.map (·.item)).Nodup) :
    (∀ bk ∈ mkBuckets bs, bk.2 = bs.filter (fun b => groupIdOf b.item == bk.1)) ∧
    (∀ id, id ∈ (mkBuckets bs).map (·.1) ↔ ∃ b ∈ bs, groupIdOf b.item = id) ∧
    ((mkBuckets bs).map (·.1)).Nodup :=
  ⟨(mkBuckets_char bs hnd).1, (mkBuckets_char bs hnd).2, mkBuckets_ids_nodup bs⟩

/-- non-vacuity: two blocks with different headers, in both orders -/
example :
    let b1 : Blk := ⟨.node "ItemImpl" [] [.node "A" [] [], .node "None" [] [], .node "None" [] [], .node "G" [] [],
      .node "None" [] [], .node "S1" [] [], .node "List" [] []], []⟩
    let b2 : Blk := ⟨.node "ItemImpl" [] [.node "A" [] [], .node "None" [] [], .node "None" [] [], .node "G" [] [],
      .node "None" [] [], .node "S2" [] [], .node "List" [] []], []⟩
    ([b1, b2].map (·.item)).Nodup ∧ (mkBuckets [b1, b2]).map (·.1) = [groupIdOf b1.item, groupIdOf b2.item] ∧
    (mkBuckets [b2, b1]).map (·.1) = [groupIdOf b2.item, groupIdOf b1.item] := by decide

end DI
