/-
  C05 — block order independence. Property theorems only.
  The specification side of dispatch (`applies`) does not mention the order of the blocks; by the refinement (C02) a
  well-formed grouping of *any* order of the blocks implements exactly that specification, hence two orders whose
  groupings are well-formed dispatch identically. (That the search produces a well-formed grouping for every order is
  C11's subject and is re-validated on the real grouping for every generated order.)
  Second part (`C05_flat_*`, proofs in `Lemmas/FlatOrder.lean`): for invocations without nested headers the SEARCH
  itself is order-free — `parseGroups` accepts a permutation of the blocks iff it accepts the original, with the same
  kind of rejection, and the families it forms are the same up to the order of members, keys and `?Sized` parameters
  and the spelling of the keys.
-/
import DisjointImpls.Lemmas.Refine
import DisjointImpls.Lemmas.GroupLemmas
import DisjointImpls.Lemmas.FlatOrder
import DisjointImpls.Props.C03
namespace DI

/-- "some block applies" is invariant under permuting the blocks -/
theorem C05_spec_order_invariant (W : World) (q : T) (bs bs' : List Block) (h : bs.Perm bs') :
    (∃ b ∈ bs, applies W b q) ↔ (∃ b ∈ bs', applies W b q) := by
  constructor
  · rintro ⟨b, hb, ha⟩; exact ⟨b, h.mem_iff.mp hb, ha⟩
  · rintro ⟨b, hb, ha⟩; exact ⟨b, h.mem_iff.mpr hb, ha⟩

/-- a grouping (list of families) is well-formed in world `W` -/
def GroupingWF (W : World) (G : List Family) : Prop :=
  ∀ F ∈ G, WorldTotal W F ∧ ∀ m ∈ F.members, memberOK F m = true ∧ ThetaCovers F m ∧ SizedCompat W F m

def blocksOf (G : List Family) : List Block := G.flatMap (fun F => F.members.map (·.blk))

/-- the trait is implemented for `q` through some family of the grouping -/
def implemented (W : World) (G : List Family) (q : T) : Prop := ∃ F ∈ G, ∃ m ∈ F.members, genSel W F m q

theorem implemented_iff_applies (W : World) (G : List Family) (hG : GroupingWF W G) (q : T) :
    implemented W G q ↔ ∃ b ∈ blocksOf G, applies W b q := by
  constructor
  · rintro ⟨F, hF, m, hm, hs⟩
    refine ⟨m.blk, ?_, gen_sub_spec W F m q hs⟩
    simp only [blocksOf, List.mem_flatMap, List.mem_map]
    exact ⟨F, hF, m, hm, rfl⟩
  · rintro ⟨b, hb, ha⟩
    simp only [blocksOf, List.mem_flatMap, List.mem_map] at hb
    obtain ⟨F, hF, m, hm, rfl⟩ := hb
    obtain ⟨hw, hmem⟩ := hG F hF
    obtain ⟨ok, tc, sc⟩ := hmem m hm
    exact ⟨F, hF, m, hm, spec_sub_gen W F m q ok hw tc sc ha⟩

/-- two groupings of the same blocks in different orders (e.g. the groupings the macro computes for two
    permutations of one invocation) implement the trait for exactly the same queries -/
theorem C05_dispatch_invariant (W : World) (G G' : List Family) (hG : GroupingWF W G) (hG' : GroupingWF W G')
    (hperm : (blocksOf G).Perm (blocksOf G')) (q : T) :
    implemented W G q ↔ implemented W G' q := by
  rw [implemented_iff_applies W G hG, implemented_iff_applies W G' hG']
  exact C05_spec_order_invariant W q _ _ hperm

/-- and select the same block: whatever member either grouping selects is a block of the (order-free) specification -/
theorem C05_selected_block_order_free (W : World) (G : List Family) (F : Family) (m : Member) (q : T)
    (_ : F ∈ G) (_ : m ∈ F.members) : genSel W F m q → applies W m.blk q :=
  gen_sub_spec W F m q

/-- the first step of the grouping does not depend on the order of the blocks: for pairwise different block texts,
    the buckets of a permutation have the same headers and, under each header, the same blocks, up to order -/
theorem C05_buckets_order_free (bs bs' : List Blk) (hp : bs.Perm bs') (hnd : (bs.map (·.item)).Nodup) :
    ((mkBuckets bs).map (·.1)).Perm ((mkBuckets bs').map (·.1)) ∧
    ∀ id blks blks', (id, blks) ∈ mkBuckets bs → (id, blks') ∈ mkBuckets bs' → blks.Perm blks' :=
  mkBuckets_perm hp hnd

/-- what the buckets are, independently of any order: the bucket of a header holds exactly the blocks with that
    header, and the headers are those of the blocks -/
theorem C05_buckets_characterised (bs : List Blk) (hnd : (bs.map (·.item)).Nodup) :
    (∀ bk ∈ mkBuckets bs, bk.2 = bs.filter (fun b => groupIdOf b.item == bk.1)) ∧
    (∀ id, id ∈ (mkBuckets bs).map (·.1) ↔ ∃ b ∈ bs, groupIdOf b.item = id) ∧
    ((mkBuckets bs).map (·.1)).Nodup :=
  ⟨(mkBuckets_char bs hnd).1, (mkBuckets_char bs hnd).2, mkBuckets_ids_nodup bs⟩

/-- non-vacuity: two blocks with different headers, in both orders -/
example :
    let b1 : Blk := ⟨.node "ItemImpl" [] [.node "A" [] [], .node "None" [] [], .node "None" [] [], .node "G" [] [],
      .node "None" [] [], .node "S1" [] [], .node "List" [] []], []⟩
    let b2 : Blk := ⟨.node "ItemImpl" [] [.node "A" [] [], .node "None" [] [], .node "None" [] [], .node "G" [] [],
      .node "None" [] [], .node "S2" [] [], .node "List" [] []], []⟩
    ([b1, b2].map (·.item)).Nodup ∧ (mkBuckets [b1, b2]).map (·.1) = [groupIdOf b1.item, groupIdOf b2.item] ∧
    (mkBuckets [b2, b1]).map (·.1) = [groupIdOf b2.item, groupIdOf b1.item] := by decide

/-! ## The search itself is order-free, for invocations without nested headers

  Side conditions (both executable, evaluated per test case):
  * `noNesting items` (Props/C11): no header generalises a different one, so every bucket is searched on its own;
  * `flatWF items` (Lemmas/FlatOrder): every header matches itself with identity bindings only (`selfIdentity`), and
    every trait path in the bounds is one `TraitBound::eq` can compare (`wfPath`, which every path `syn` produces
    satisfies — `Fn(A) -> B` included since /repo 94aac73; outside of it the model of the comparison panics,
    `C12_panics_outside`) — then `keyEq` is an equivalence;
  Pairwise different block texts are NOT needed (a textually identical block replaces the earlier one; the buckets of a
  permutation are still permutations of each other, `mkBuckets_perm'`).
  The side conditions are themselves invariant under permuting the blocks (`C05_flat_hyps_order_free`).
  `flatWF0` is the weaker form of `flatWF` that also admits headers on which the matcher itself panics or answers no
  (`selfWeak`: *if* the header matches itself, then with identity bindings only); it suffices for everything except
  the clause "the kind of rejection is preserved" (`C05_flat_rejection_kind_counterexample`). -/

/-- the side conditions of the flat order theorems hold for every permutation of the blocks if they hold for one -/
theorem C05_flat_hyps_order_free (items items' : List T) (hp : items.Perm items') (hn : noNesting items = true)
    (hwf : flatWF items = true) : noNesting items' = true ∧ flatWF items' = true := by
  obtain ⟨h1, h2⟩ := flat_hyps_perm hp (by simpa [noNesting] using hn) hwf
  exact ⟨by simpa [noNesting] using h1, h2⟩

/-- **Acceptance is order-free.** For an invocation without nested headers, `parseGroups` accepts a permutation of
    the blocks iff it accepts the original; it reports "Unable to form impl groups" (for some header) for the one iff
    it does for the other; and it panics for neither. -/
theorem C05_flat_acceptance_order_free (items items' : List T) (hp : items.Perm items') (hn : noNesting items = true)
    (hwf : flatWF items = true) :
    ((∃ g, parseGroups items = .ok g) ↔ (∃ g', parseGroups items' = .ok g')) ∧
    ((∃ id, parseGroups items = .unableToForm id) ↔ (∃ id', parseGroups items' = .unableToForm id')) ∧
    (∀ e, parseGroups items ≠ .panic e) ∧ (∀ e, parseGroups items' ≠ .panic e) :=
  flat_acceptance_perm hp (by simpa [noNesting] using hn) hwf

/-- the part of `C05_flat_acceptance_order_free` that holds under the weaker side condition `flatWF0` (headers on
    which the matcher panics are allowed): acceptance itself is order-free -/
theorem C05_flat_acceptance_order_free_partial (items items' : List T) (hp : items.Perm items')
    (hn : noNesting items = true) (hwf : flatWF0 items = true) :
    (∃ g, parseGroups items = .ok g) ↔ (∃ g', parseGroups items' = .ok g') :=
  flat_acceptance_perm0 hp (by simpa [noNesting] using hn) hwf

/-- what acceptance is, independently of any order: no bucket makes the search panic (`bucketPanics`: two or more
    blocks under a header that does not match itself) and every bucket's single candidate passes the candidate
    filter (`accOK`: after pruning the keys without a binding a key is left and no member's row generalises
    another's). Under the full side condition `flatWF` no bucket panics and the result is never `.panic`. -/
theorem C05_flat_acceptance_characterised (items : List T) (hn : noNesting items = true)
    (hwf : flatWF0 items = true) :
    ((∃ g, parseGroups items = .ok g) ↔
      ∀ bk ∈ mkBuckets (items.map mkBlk), bucketPanics bk = false ∧ accOK bk.2 = true) ∧
    (flatWF items = true → (∀ bk ∈ mkBuckets (items.map mkBlk), bucketPanics bk = false) ∧
      ∀ e, parseGroups items ≠ .panic e) :=
  ⟨parseGroups_flat_ok_iff items (by simpa [noNesting] using hn) hwf,
   fun h => ⟨buckets_no_panic items h, (parseGroups_flat_kinds items (by simpa [noNesting] using hn) h).2.2⟩⟩

/-- the flat search yields exactly one candidate per bucket (so `chooseCandidate` has no choice to make); its keys
    and rows are `famB` — the blocks joined one after the other — and its `?Sized` parameters are `famU` -/
theorem C05_flat_single_candidate (c : T) (hself : selfIdentity c = true) (b1 : Blk) (rest : List Blk) :
    flatSearch c (b1 :: rest) [] = .ok [[(c, ⟨famB b1 rest, famU b1 rest⟩, b1 :: rest)]] :=
  flatSearch_root hself b1 rest

/-- … and `famB` is characterised order-free: the keys (of the last block) that every block has, each with the
    members' own rows (`rowD b k`: the block's bounds folded per key, looked up up to `keyEq`) -/
theorem C05_flat_candidate_spec (b1 : Blk) (rest : List Blk) (hw : ∀ x ∈ b1 :: rest, wfBlk x = true) :
    famB b1 rest = famSpec (b1 :: rest) (lastB b1 rest) :=
  famB_spec b1 rest hw

/-- the candidate filter on one bucket does not depend on the order of its blocks -/
theorem C05_flat_bucket_filter_order_free (blks blks' : List Blk) (hp : blks.Perm blks')
    (hw : ∀ b ∈ blks, wfBlk b = true) (hnd : blks.Nodup) : accOK blks = accOK blks' :=
  accOK_perm hp hw hnd

/-- **The families are order-free.** If an invocation without nested headers and a permutation of it are both
    accepted (by `C05_flat_acceptance_order_free`: if one of them is), the two groupings have the same headers (each
    once), and the family `e'` with the header of a family `e`
    * has the same members up to order;
    * has the same keys up to spelling and order: the normal forms `nk k = (bounded type, dispatch key of the trait
      path)` — what `keyEq` compares, associated-type bindings ignored — are permutations of each other;
    * for every key of `e` has a `keyEq` key under which every member has the same row of bindings: the member/row
      pairs are a permutation of each other (so `rowLookup` gives the same binding, or none, for every member, key
      and associated-type identifier);
    * has the same `?Sized` parameters, as a set.
    Applied to `hp.symm` it gives the converse direction. The weak side condition `flatWF0` suffices
    (`flatWF0_of_flatWF`). What does depend on the order: the order of the members,
    of the keys and of the `?Sized` parameters, and the spelling of a key (that of the last member). -/
theorem C05_flat_families_order_free (items items' : List T) (g g' : Groups) (hp : items.Perm items')
    (hn : noNesting items = true) (hwf : flatWF0 items = true)
    (h : parseGroups items = .ok g) (h' : parseGroups items' = .ok g') :
    (g.map (·.1)).Perm (g'.map (·.1)) ∧ (g.map (·.1)).Nodup ∧
    ∀ e ∈ g, ∃ e' ∈ g', e'.1 = e.1 ∧ e.2.2.Perm e'.2.2 ∧
      (e.2.1.bounds.map (fun kr => nk kr.1)).Perm (e'.2.1.bounds.map (fun kr => nk kr.1)) ∧
      (∀ kr ∈ e.2.1.bounds, ∃ kr' ∈ e'.2.1.bounds, keyEq kr.1 kr'.1 = true ∧ (e.2.2.zip kr.2).Perm (e'.2.2.zip kr'.2)) ∧
      ∀ p, p ∈ e.2.1.unsized ↔ p ∈ e'.2.1.unsized :=
  flat_families_perm hp (by simpa [noNesting] using hn) hwf h h'

/-- an accepted family, without reference to any order of the search: its members are exactly the input blocks with
    its header, each once; its keys are exactly the keys of the last member that every member has (`hasKey`) and for
    which some member has a binding; the row of a member under a key is the member's own row -/
theorem C05_flat_family_characterised (items : List T) (g : Groups) (hn : noNesting items = true)
    (hwf : flatWF0 items = true) (h : parseGroups items = .ok g) :
    ∀ e ∈ g, e.2.2.Nodup ∧ (∀ b, b ∈ e.2.2 ↔ b ∈ items.map mkBlk ∧ groupIdOf b.item = e.1) ∧
      ∃ l, e.2.2.getLast? = some l ∧
        ∀ kr, kr ∈ e.2.1.bounds ↔
          (∃ r, (kr.1, r) ∈ otherFold l) ∧ hasKey e.2.2 kr.1 = true ∧ kr.2 = e.2.2.map (fun b => rowD b kr.1) ∧
            ∃ b ∈ e.2.2, rowD b kr.1 ≠ [] :=
  flat_family_char h (by simpa [noNesting] using hn) hwf

/-- … and for pairwise different block texts the members come in input order -/
theorem C05_flat_family_members (items : List T) (g : Groups) (hn : noNesting items = true)
    (hwf : flatWF0 items = true) (hnd : ((items.map mkBlk).map (·.item)).Nodup) (h : parseGroups items = .ok g) :
    ∀ e ∈ g, e.2.2 = (items.map mkBlk).filter (fun b => groupIdOf b.item == e.1) :=
  flat_family_members_filter h (by simpa [noNesting] using hn) hwf hnd

/-- the side conditions as one executable check -/
def flatOrderPre (items : List T) : Bool := noNesting items && flatWF items

/-- acceptance is order-free, under the single executable precondition `flatOrderPre items` -/
theorem C05_flat_order_free_exec (items items' : List T) (hp : items.Perm items') (hpre : flatOrderPre items = true) :
    flatOrderPre items' = true ∧
    ((∃ g, parseGroups items = .ok g) ↔ (∃ g', parseGroups items' = .ok g')) ∧
    ((∃ id, parseGroups items = .unableToForm id) ↔ (∃ id', parseGroups items' = .unableToForm id')) ∧
    (∀ e, parseGroups items ≠ .panic e) ∧ (∀ e, parseGroups items' ≠ .panic e) := by
  simp only [flatOrderPre, Bool.and_eq_true] at hpre ⊢
  obtain ⟨hn, hwf⟩ := hpre
  exact ⟨C05_flat_hyps_order_free items items' hp hn hwf, C05_flat_acceptance_order_free items items' hp hn hwf⟩

namespace Ex11
/-- `impl<T: bounds> Kita for T {}` -/
def blockBounds (bs : List T) : T := implOf [tyParam "T" bs] tT
/-- three blocks with the same header and different bindings; the second one lists its bounds in the other order and
    the third one lacks the `Other` bound, so the family keeps the single key `T: Dispatch` -/
def order3 : List T :=
  [blockBounds [traitBound (dispatch "GroupA"), traitBound (otherTr "X")],
   blockBounds [traitBound (otherTr "Y"), traitBound (dispatch "GroupB")],
   blockBounds [traitBound (dispatch "GroupC")]]
def order3' : List T :=
  [blockBounds [traitBound (dispatch "GroupC")],
   blockBounds [traitBound (dispatch "GroupA"), traitBound (otherTr "X")],
   blockBounds [traitBound (otherTr "Y"), traitBound (dispatch "GroupB")]]
end Ex11

section FlatNonVacuity
open Ex11
set_option maxRecDepth 1000000

/-- non-vacuity: the three blocks in two orders satisfy every hypothesis, and both orders are accepted -/
theorem C05_flat_example_hyps :
    order3.Perm order3' ∧ noNesting order3 = true ∧ flatWF order3 = true := by
  refine ⟨?_, by with_unfolding_all decide, by with_unfolding_all decide⟩
  exact (List.perm_append_comm (l₁ := [blockBounds [traitBound (dispatch "GroupA"), traitBound (otherTr "X")],
    blockBounds [traitBound (otherTr "Y"), traitBound (dispatch "GroupB")]])
    (l₂ := [blockBounds [traitBound (dispatch "GroupC")]]))

theorem C05_flat_example_accepted :
    ∃ gs, parseGroups order3 = .ok gs ∧
      (gs.map (fun (e : T × ABG × List Blk) => (e.2.2.length, e.2.1.bounds.length, e.2.1.payloads.length)) == [(3, 1, 3)]) = true :=
  ParseResult.ok_of_check (f := fun gs => gs.map (fun (e : T × ABG × List Blk) =>
    (e.2.2.length, e.2.1.bounds.length, e.2.1.payloads.length)) == [(3, 1, 3)]) (by with_unfolding_all decide)

example : flatOrderPre order3 = true := by with_unfolding_all decide

/-- the theorem (not a computation) yields the acceptance of the other order, and the correspondence of the families -/
example : ∃ gs gs', parseGroups order3 = .ok gs ∧ parseGroups order3' = .ok gs' ∧
    (gs.map (·.1)).Perm (gs'.map (·.1)) := by
  obtain ⟨hp, hn, hwf⟩ := C05_flat_example_hyps
  obtain ⟨gs, hgs, _⟩ := C05_flat_example_accepted
  obtain ⟨gs', hgs'⟩ := (C05_flat_acceptance_order_free order3 order3' hp hn hwf).1.1 ⟨gs, hgs⟩
  exact ⟨gs, gs', hgs, hgs', (C05_flat_families_order_free order3 order3' gs gs' hp hn (flatWF0_of_flatWF hwf) hgs hgs').1⟩

/-- a rejected invocation (two blocks with the same binding: rows not distinguishable) is rejected in both orders,
    with the same kind of error -/
example :
    let items := [blockBounds [traitBound (dispatch "GroupA"), traitBound (otherTr "X")],
      blockBounds [traitBound (otherTr "Y"), traitBound (dispatch "GroupA")], blockBounds [traitBound (dispatch "GroupC")]]
    (noNesting items = true ∧ flatWF items = true) ∧
    (∃ id, parseGroups items = .unableToForm id) ∧ (∃ id, parseGroups items.reverse = .unableToForm id) := by
  intro items
  have hh : noNesting items = true ∧ flatWF items = true :=
    ⟨by with_unfolding_all decide, by with_unfolding_all decide⟩
  have h1 : ∃ id, parseGroups items = .unableToForm id := by
    have : (match parseGroups items with | .unableToForm _ => true | _ => false) = true := by with_unfolding_all decide
    revert this
    cases parseGroups items with
    | unableToForm id => exact fun _ => ⟨id, rfl⟩
    | ok _ => intro h; cases h
    | panic _ => intro h; cases h
  exact ⟨hh, h1, (C05_flat_acceptance_order_free items items.reverse (List.reverse_perm items).symm hh.1 hh.2).2.1.1 h1⟩

/-- two buckets (`Vec<T>` and `Box<T>`), blocks interleaved, and the reversed input: both accepted; the families come
    out in a different order (`Box<T>` first) with their members in a different order, and
    `C05_flat_families_order_free` relates them -/
example :
    let items := [blockSelf "GroupA" (vecOf tT), blockSelf "GroupA" (boxOf tT), blockSelf "GroupB" (vecOf tT),
      blockSelf "GroupB" (boxOf tT)]
    ∃ gs gs', parseGroups items = .ok gs ∧ parseGroups items.reverse = .ok gs' ∧
      gs.map (·.1) ≠ gs'.map (·.1) ∧ (gs.map (·.1)).Perm (gs'.map (·.1)) ∧
      ∀ e ∈ gs, ∃ e' ∈ gs', e'.1 = e.1 ∧ e.2.2.Perm e'.2.2 := by
  intro items
  have hn : noNesting items = true := by with_unfolding_all decide
  have hwf : flatWF items = true := by with_unfolding_all decide
  have hp : items.Perm items.reverse := (List.reverse_perm items).symm
  obtain ⟨gs, hgs, hids⟩ := ParseResult.ok_of_check (r := parseGroups items)
    (f := fun gs => gs.map (·.1) == [groupIdOf (mkBlk (blockSelf "GroupA" (vecOf tT))).item,
      groupIdOf (mkBlk (blockSelf "GroupA" (boxOf tT))).item]) (by with_unfolding_all decide)
  obtain ⟨gs', hgs', hids'⟩ := ParseResult.ok_of_check (r := parseGroups items.reverse)
    (f := fun gs => gs.map (·.1) == [groupIdOf (mkBlk (blockSelf "GroupA" (boxOf tT))).item,
      groupIdOf (mkBlk (blockSelf "GroupA" (vecOf tT))).item]) (by with_unfolding_all decide)
  obtain ⟨h1, _, h3⟩ := C05_flat_families_order_free items items.reverse gs gs' hp hn (flatWF0_of_flatWF hwf) hgs hgs'
  refine ⟨gs, gs', hgs, hgs', ?_, h1, fun e he => ?_⟩
  · rw [eq_of_beq hids, eq_of_beq hids']
    with_unfolding_all decide
  · obtain ⟨e', he', a, b, _⟩ := h3 e he
    exact ⟨e', he', a, b⟩

def ParseResult.isPanic : ParseResult → Bool
  | .panic _ => true
  | _ => false
def ParseResult.isUnable : ParseResult → Bool
  | .unableToForm _ => true
  | _ => false

/-- why `selfIdentity` is a side condition of the clause "the kind of rejection is preserved": on a header on which the
    matcher itself panics (`unimplemented!()` arms of `is_superset`, here a synthetic header containing a
    `Pat::Struct` node) the search of a bucket with two blocks panics, a bucket with indistinguishable rows is
    rejected with "Unable to form impl groups", and which of the two failures is reported depends on which bucket
    comes first. (Acceptance itself is the same in both orders: both are rejected.) -/
theorem C05_flat_rejection_kind_counterexample :
    let weird : T := .node "Type::Slice" [] [.node "Pat::Struct" [] []]
    let items := [blockSelf "GroupA" weird, blockSelf "GroupB" weird, blockSelf "GroupA" (vecOf tT),
      blockSelf2 "GroupA" (vecOf tT)]
    noNesting items = true ∧ flatWF items = false ∧ flatWF0 items = true ∧
      (parseGroups items).isPanic = true ∧ (parseGroups items.reverse).isUnable = true := by
  with_unfolding_all decide

/-- non-vacuity of the `flatWF0` theorems outside `flatWF`: a lone block under a header on which the matcher panics
    (its bucket is never compared with itself) next to an ordinary family — accepted, hence accepted in every order -/
example :
    let weird : T := .node "Type::Slice" [] [.node "Pat::Struct" [] []]
    let items := [blockSelf "GroupA" weird, blockSelf "GroupA" (vecOf tT), blockSelf "GroupB" (vecOf tT)]
    flatWF items = false ∧ ∃ gs', parseGroups items.reverse = .ok gs' := by
  intro weird items
  have hn : noNesting items = true := by with_unfolding_all decide
  have hwf : flatWF0 items = true := by with_unfolding_all decide
  obtain ⟨gs, hgs, _⟩ := ParseResult.ok_of_check (r := parseGroups items) (f := fun gs => gs.length == 2)
    (by with_unfolding_all decide)
  exact ⟨by with_unfolding_all decide,
    (C05_flat_acceptance_order_free_partial items items.reverse (List.reverse_perm items).symm hn hwf).1 ⟨gs, hgs⟩⟩

/-- pairwise different block texts are not needed: with a textually repeated block (which replaces the earlier copy)
    the theorem still transfers acceptance to another order -/
example :
    let items := [blockFor "GroupA", blockFor "GroupB", blockFor "GroupA"]
    let items' := [blockFor "GroupA", blockFor "GroupA", blockFor "GroupB"]
    ¬ ((items.map mkBlk).map (·.item)).Nodup ∧ ∃ gs', parseGroups items' = .ok gs' := by
  intro items items'
  have hn : noNesting items = true := by with_unfolding_all decide
  have hwf : flatWF items = true := by with_unfolding_all decide
  have hp : items.Perm items' := List.Perm.cons _ (List.Perm.swap _ _ [])
  obtain ⟨gs, hgs, _⟩ := ParseResult.ok_of_check (r := parseGroups items) (f := fun gs => gs.length == 1)
    (by with_unfolding_all decide)
  exact ⟨by with_unfolding_all decide, (C05_flat_acceptance_order_free items items' hp hn hwf).1.1 ⟨gs, hgs⟩⟩

end FlatNonVacuity

end DI
